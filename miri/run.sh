#!/bin/bash
# Substrate check (DESIGN section 5): a small workload of the monitor — and therefore of the contract
# and its dependencies (prost/bytes, base64, rust_decimal, serde-json-wasm contain unsafe) — under Miri.
# A copy of the harness is built with a vendored ahash 0.7.6 whose build script no longer enables the
# removed `stdsimd` feature on nightly (the only change; see miri/vendor/ahash/build.rs).
# usage: miri/run.sh [prop] [n_random_histories]      default: C02 0  (W0 scenarios only)
set -u
PROP=${1:-C02}; N=${2:-0}
LAB=/verif/.miri-lab
mkdir -p $LAB /verif/out
rsync -a --delete /verif/harness/ $LAB/harness/ --exclude target
cat >> $LAB/harness/Cargo.toml <<EOT

[patch.crates-io]
ahash = { path = "/verif/miri/vendor/ahash" }
EOT
cd $LAB/harness
start=$(date +%s)
CARGO_NET_OFFLINE=true CARGO_TARGET_DIR=$LAB/target MIRIFLAGS="-Zmiri-disable-isolation" \
  VERIF_NO_EVIDENCE=1 VERIF_THREADS=1 VERIF_TASK_LIMIT=$N VERIF_NO_MATRICES=1 VERIF_WATCHDOG_S=100000 \
  cargo +nightly miri run --offline --bin atsmon -- $PROP quick > /verif/out/miri.stdout 2> /verif/out/miri.stderr
rc=$?
end=$(date +%s)
ub=$(grep -c "Undefined Behavior" /verif/out/miri.stderr)
line=$(grep -E "^$PROP quick" /verif/out/miri.stdout | head -1 | tr -d '"')
echo "{\"tool\": \"miri ($(cargo +nightly miri --version 2>/dev/null | head -1))\", \"exit\": $rc, \"undefined_behavior_reports\": ${ub:-0}, \"wall_s\": $((end-start)), \"workload\": \"$line\"}" > /verif/miri/miri.last.json
cat /verif/miri/miri.last.json
if [ "${ub:-0}" != "0" ]; then echo "INCONCLUSIVE: Miri reported undefined behaviour; see /verif/out/miri.stderr"; exit 2; fi
if [ $rc -ne 0 ]; then echo "exit $rc under Miri"; tail -15 /verif/out/miri.stderr; exit 2; fi
echo "miri clean"
