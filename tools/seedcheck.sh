#!/bin/bash
# For every seeded change: apply it to /repo, run the quick checks named in meta.json (detected_by),
# undo, and record the outcome in seeded/<id>/result.json. (Builds in a separate target dir.)
cd /repo || exit 3
if ! git diff --quiet; then echo "repo dirty; abort"; exit 3; fi
trap 'git -C /repo checkout -- . >/dev/null 2>&1' EXIT
for d in /verif/seeded/*/; do
  id=$(basename $d)
  if [ -f $d/result.json ] && [ -z "${FORCE:-}" ]; then continue; fi
  props=$(python3 -c "import json;m=json.load(open('$d/meta.json'));print(' '.join(m.get('detected_by',{}).keys()))")
  git apply $d/patch.diff || { echo "[$id] patch does not apply"; continue; }
  res="{"
  for p in $props; do
    out=$(cd /verif && VERIF_TARGET_DIR=/verif/.target-mut VERIF_NO_EVIDENCE=1 ./check $p quick 2>&1); rc=$?
    sig=$(echo "$out" | grep -m1 "signature=" | sed 's/.*signature=//' | cut -c1-160 | tr '"' "'")
    res="$res\"$p\": {\"exit\": $rc, \"first_signature\": \"$sig\"},"
    echo "[$id] $p exit=$rc $sig"
  done
  echo "${res%,}}" > $d/result.json
  git checkout -- .
done
