#!/bin/bash
# usage: sweep.sh <tier> <seed>...   — run every property's check at the given seeds; print non-silent ones
tier=$1; shift
for s in "$@"; do
  for p in C01 C02 C03 C04 C05 C06 C07 C08 C09 C10 C11 C12 C13 C14 C15 C16 C17; do
    out=$(VERIF_SEED=$s ${ATSMON:-/verif/.target/release/atsmon} $p $tier 2>&1); rc=$?
    line=$(echo "$out" | grep -E "^$p " | head -1)
    echo "seed=$s $p rc=$rc $(echo "$line" | sed -E 's/.*(evaluations=[0-9]+ distinct_cases=[0-9]+).*(wall=[0-9.]+s)/\1 \2/')"
    if [ $rc -ne 0 ]; then echo "$out" | grep -E "VIOLATION|signature|witness|INCONCLUSIVE" | cut -c1-600 | head -12; fi
  done
done
