#!/usr/bin/env python3
"""Operator-mutation self-test of the monitors (development aid, not a registered check).

Enumerates single-site operator mutants of the contract's non-test source (relational / boolean /
arithmetic operator swaps, rounding strategy, guard disabling, statement deletion, ask<->bid
identifier swaps), and for a sample of them:
  1. applies the mutant in a scratch worktree of /repo (never in /repo itself),
  2. builds a copy of the harness against that worktree and runs `atsmon ALL quick` on a reduced
     task list -> detected (exit 1, which properties fired) / silent (exit 0) / inconclusive,
  3. for silent mutants only, runs the repository's own test suite to tell "killed by the tests"
     from "survives the tests" (the latter are the ones to read by hand: equivalent or a gap).
Results are appended to mutants/auto_results.jsonl (one JSON object per mutant).

usage: automut.py --jobs 3 --sample 200 --seed 1 [--files src/contract.rs,...] [--limit-tasks 150]
"""
import argparse, json, os, random, re, subprocess, sys, threading, time, shutil, hashlib

REPO = "/repo"
FILES = ["src/contract.rs", "src/util.rs", "src/bid_order.rs", "src/ask_order.rs", "src/contract_info.rs",
         "src/execute/modify_contract.rs", "src/msg.rs", "src/version_info.rs", "src/common.rs"]

SWAPS = [
    (r"\.gt\(", ".ge("), (r"\.ge\(", ".gt("), (r"\.lt\(", ".le("), (r"\.le\(", ".lt("),
    (r"\.eq\(", ".ne("), (r"\.ne\(", ".eq("),
    (r" > ", " >= "), (r" < ", " <= "), (r" >= ", " > "), (r" <= ", " < "),
    (r" == ", " != "), (r" != ", " == "),
    (r" && ", " || "), (r" \|\| ", " && "),
    (r"\+=", "-="), (r"-=", "+="), (r" \+ ", " - "), (r" - ", " + "),
    (r"\.is_some\(\)", ".is_none()"), (r"\.is_none\(\)", ".is_some()"),
    (r"\.is_empty\(\)", ".is_empty().eq(&false)"),
    (r"\btrue\b", "false"), (r"\bfalse\b", "true"),
    (r"Ordering::Greater", "Ordering::Less"), (r"Ordering::Less", "Ordering::Greater"),
    (r"MidpointAwayFromZero", "MidpointNearestEven"), (r"MidpointAwayFromZero", "MidpointTowardZero"),
    (r"\bask_order\b", "bid_order"), (r"\bbid_order\b", "ask_order"),
    (r"\bask_fee\b", "bid_fee"), (r"\bbid_fee\b", "ask_fee"),
    (r"\bask_fee_info\b", "bid_fee_info"), (r"\bbid_fee_info\b", "ask_fee_info"),
    (r"\bexecutors\b", "approvers"), (r"\bapprovers\b", "executors"),
    (r"\bASKS_V1\b", "BIDS_V3"),
    (r"checked_sub", "checked_add"),
    (r"\.base\b", ".quote"), (r"\.quote\b", ".base"),
    (r"\bexecute_size\b", "ask_order.size"),
    (r"\bif !", "if "),
    (r"\bSome\(0\)", "None"),
]


def nontest_len(lines):
    for i, l in enumerate(lines):
        if l.strip().startswith("#[cfg(test)]"):
            return i
    return len(lines)


def enumerate_mutants(files):
    out = []
    for f in files:
        lines = open(os.path.join(REPO, f)).read().split("\n")
        n = nontest_len(lines)
        for i in range(n):
            l = lines[i]
            s = l.strip()
            if not s or s.startswith("//") or s.startswith("#[") or s.startswith("use ") or s.startswith("pub use"):
                continue
            code = l.split("//")[0]
            for pat, rep in SWAPS:
                for m in re.finditer(pat, code):
                    if pat in (r" > ", r" < ") and ("->" in code or "=>" in code or "<" in code and ">" in code and "::<" in code):
                        continue
                    new = code[:m.start()] + rep + code[m.end():]
                    out.append({"file": f, "line": i + 1, "op": f"{pat} -> {rep}", "old": l, "new": new})
            # guard disabling: `if COND {` directly followed by `return Err(`
            if re.match(r"^\s*if .*\{\s*$", code) and not s.startswith("if let"):
                j = i + 1
                while j < n and not lines[j].strip():
                    j += 1
                if j < n and "return Err(" in lines[j]:
                    ind = re.match(r"^\s*", code).group(0)
                    out.append({"file": f, "line": i + 1, "op": "guard disabled", "old": l, "new": ind + "if false {"})
            # statement deletion: one-line statements with side effects
            if s.endswith(";") and not s.startswith(("let ", "return", "use ", "pub ", "const ", "static ", "}")) \
                    and s.count("(") == s.count(")") and s.count("{") == s.count("}") \
                    and (re.search(r"(\+=|-=|\.save\(|\.remove\(|\.push\(|= )", s) or s.endswith("?;")):
                out.append({"file": f, "line": i + 1, "op": "statement deleted", "old": l, "new": ""})
            # attribute / message lines in builder chains
            if re.match(r"^\s*\.add_attribute\(.*\)\s*$", code) or re.match(r"^\s*\.add_messages?\(.*\)\s*$", code):
                out.append({"file": f, "line": i + 1, "op": "builder call deleted", "old": l, "new": ""})
    for m in out:
        m["id"] = hashlib.sha1(f"{m['file']}:{m['line']}:{m['op']}:{m['new']}".encode()).hexdigest()[:10]
    return out


def sh(cmd, cwd=None, env=None, timeout=1800):
    e = dict(os.environ)
    e["CARGO_NET_OFFLINE"] = "true"
    if env:
        e.update(env)
    try:
        p = subprocess.run(cmd, shell=True, cwd=cwd, env=e, stdout=subprocess.PIPE, stderr=subprocess.STDOUT, timeout=timeout, text=True)
        return p.returncode, p.stdout
    except subprocess.TimeoutExpired as ex:
        return 124, (ex.stdout or "") if isinstance(ex.stdout, str) else ""


class Job:
    def __init__(self, k, root, args):
        self.k = k
        self.dir = f"{root}/j{k}"
        self.wt = f"{self.dir}/wt"
        self.args = args
        os.makedirs(self.dir, exist_ok=True)
        if not os.path.isdir(self.wt):
            rc, o = sh(f"git -C {REPO} worktree add --detach {self.wt} HEAD")
            assert rc == 0, o
        sh("git checkout -- .", cwd=self.wt)
        sh(f"rsync -a --delete /verif/harness/ {self.dir}/harness/ --exclude target")
        sh(f"sed -i 's#path = \"/repo\"#path = \"{self.wt}\"#' {self.dir}/harness/Cargo.toml")
        if not os.path.exists(f"{self.dir}/harness/Cargo.lock"):
            shutil.copy(f"{REPO}/Cargo.lock", f"{self.dir}/harness/Cargo.lock")

    def build_harness(self):
        return sh("cargo build --release --offline", cwd=f"{self.dir}/harness", env={"CARGO_TARGET_DIR": f"{self.dir}/target"})

    def run_one(self, m):
        path = os.path.join(self.wt, m["file"])
        orig = open(path).read()
        lines = orig.split("\n")
        assert lines[m["line"] - 1] == m["old"], "source drifted"
        lines[m["line"] - 1] = m["new"]
        open(path, "w").write("\n".join(lines))
        res = dict(m)
        t0 = time.time()
        try:
            rc, o = self.build_harness()
            if rc != 0:
                res["status"] = "stillborn"
                return res
            env = {"VERIF_REPO": self.wt, "VERIF_NO_EVIDENCE": "1", "VERIF_THREADS": str(self.args.threads),
                   "VERIF_TASK_LIMIT": str(self.args.limit_tasks), "VERIF_SEED": str(self.args.check_seed)}
            rc, o = sh(f"{self.dir}/target/release/atsmon ALL quick", cwd="/verif", env=env, timeout=1500)
            fired = sorted(set(re.findall(r"VIOLATION property=(C\d\d)", o)))
            res["check_exit"] = rc
            res["fired"] = fired
            if rc == 1:
                res["status"] = "detected"
                return res
            if rc != 0:
                res["status"] = "inconclusive"
                res["tail"] = o[-600:]
                return res
            # silent on the reduced task list: run the full quick workload of every property
            env.pop("VERIF_TASK_LIMIT")
            rc, o = sh(f"{self.dir}/target/release/atsmon ALL quick", cwd="/verif", env=env, timeout=3000)
            fired = sorted(set(re.findall(r"VIOLATION property=(C\d\d)", o)))
            res["full_exit"] = rc
            res["fired"] = fired
            if rc == 1:
                res["status"] = "detected-full"
                return res
            # silent: is it killed by the repository's own tests?
            rc, o = sh("cargo test --offline --lib", cwd=self.wt, env={"CARGO_TARGET_DIR": f"{self.dir}/target-tests"}, timeout=1500)
            mm = re.search(r"test result: (\w+)\. (\d+) passed; (\d+) failed", o)
            res["suite"] = mm.group(0) if mm else o[-300:]
            res["status"] = "silent-killed-by-tests" if (rc != 0) else "SILENT-SURVIVES-TESTS"
            return res
        finally:
            res["wall_s"] = round(time.time() - t0, 1)
            open(path, "w").write(orig)


def main():
    ap = argparse.ArgumentParser()
    ap.add_argument("--jobs", type=int, default=3)
    ap.add_argument("--threads", type=int, default=4)
    ap.add_argument("--sample", type=int, default=100)
    ap.add_argument("--seed", type=int, default=1)
    ap.add_argument("--check-seed", type=int, default=20261001)
    ap.add_argument("--limit-tasks", type=int, default=150)
    ap.add_argument("--files", default=",".join(FILES))
    ap.add_argument("--root", default="/tmp/automut")
    ap.add_argument("--out", default="/verif/mutants/auto_results.jsonl")
    ap.add_argument("--list", action="store_true")
    ap.add_argument("--only-ops", default="")
    args = ap.parse_args()
    muts = enumerate_mutants(args.files.split(","))
    if args.only_ops:
        muts = [m for m in muts if any(x in m["op"] for x in args.only_ops.split(","))]
    if args.list:
        from collections import Counter
        print(len(muts), Counter(m["file"] for m in muts))
        return
    done = set()
    if os.path.exists(args.out):
        for l in open(args.out):
            try:
                done.add(json.loads(l)["id"])
            except Exception:
                pass
    rnd = random.Random(args.seed)
    rnd.shuffle(muts)
    todo = [m for m in muts if m["id"] not in done][: args.sample]
    print(f"{len(muts)} mutants enumerated, {len(done)} already done, running {len(todo)}", flush=True)
    lock = threading.Lock()
    it = iter(todo)

    def worker(k):
        job = Job(k, args.root, args)
        rc, o = job.build_harness()
        if rc != 0:
            print("baseline harness build failed", o[-500:]); return
        while True:
            with lock:
                m = next(it, None)
            if m is None:
                return
            try:
                r = job.run_one(m)
            except Exception as ex:
                r = dict(m); r["status"] = "error"; r["error"] = str(ex)
            with lock:
                with open(args.out, "a") as f:
                    f.write(json.dumps(r) + "\n")
                print(f"[j{k}] {r['status']:24s} {r.get('fired','')} {m['file']}:{m['line']} {m['op']} ({r.get('wall_s')}s)", flush=True)

    ths = [threading.Thread(target=worker, args=(k,)) for k in range(args.jobs)]
    for t in ths: t.start()
    for t in ths: t.join()


if __name__ == "__main__":
    main()
