#!/bin/bash
# usage: mutest.sh <patch-file|rev:COMMIT> <prop> [<prop>...]   — apply a change to /repo, run quick checks, undo.
set -u
P="$1"; shift
cd /repo || exit 3
if ! git diff --quiet; then echo "repo dirty; abort"; exit 3; fi
trap 'git -C /repo checkout -- . >/dev/null 2>&1' EXIT
if [[ "$P" == rev:* ]]; then
  git show "${P#rev:}" | git apply -R || { echo "reverse apply failed"; exit 3; }
else
  git apply "$P" || { echo "apply failed"; exit 3; }
fi
for p in "$@"; do
  out=$(cd /verif && VERIF_TARGET_DIR=/verif/.target-mut VERIF_TIER=${TIER:-quick} ./check $p ${TIER:-quick} 2>&1); rc=$?
  nv=$(echo "$out" | grep -c "^VIOLATION")
  echo "[$p] exit=$rc violations=$nv $(echo "$out" | grep -E 'signature=' | head -3 | tr '\n' '|' | cut -c1-300)"
  if [ $rc -eq 2 ]; then echo "$out" | grep -E "INCONCLUSIVE|error" | head -5; fi
done
