#!/bin/bash
# usage: verify_seed.sh <worktree> <demo-test-target> <prop>...
# confirms: patch applies; suite passes with it; demo fails with it and passes without; then lab-checks.
WT=$1; DEMO=$2; shift 2
cd $WT || exit 3
export CARGO_TARGET_DIR=$WT/target
git checkout -- src 2>/dev/null
echo "== without change: demo"; cargo test --offline --test $DEMO 2>&1 | grep -E "^test result|FAILED|panicked" | head -5
git apply OUT/patch.diff || { echo "PATCH DOES NOT APPLY"; exit 3; }
echo "== with change: suite"; cargo test --offline --lib 2>&1 | grep -E "^test result" ; cargo test --offline --doc 2>&1 | grep -E "^test result"
echo "== with change: demo"; cargo test --offline --test $DEMO 2>&1 | grep -E "^test result|FAILED" | head -5
echo "== with change: checks"; /verif/tools/labcheck.sh $WT "$@"
git checkout -- src
