#!/bin/bash
# For every stored semantics-preserving refactor: apply it to /repo, run ALL quick checks (separate
# target dir, no evidence written), undo, and record refactors/<name>/result.json. Every run must exit 0.
cd /repo || exit 3
if ! git diff --quiet; then echo "repo dirty; abort"; exit 3; fi
trap 'git -C /repo checkout -- . >/dev/null 2>&1; git -C /repo clean -fdq src >/dev/null 2>&1' EXIT
for d in /verif/refactors/*/; do
  n=$(basename $d)
  [ -f $d/patch.diff ] || continue
  git apply $d/patch.diff || { echo "[$n] patch does not apply"; continue; }
  res="{"
  for p in C01 C02 C03 C04 C05 C06 C07 C08 C09 C10 C11 C12 C13 C14 C15 C16 C17; do
    out=$(cd /verif && VERIF_TARGET_DIR=/verif/.target-mut VERIF_NO_EVIDENCE=1 VERIF_SEED=${VERIF_SEED:-1} ./check $p quick 2>&1); rc=$?
    sig=$(echo "$out" | grep -m1 "signature=" | sed 's/.*signature=//' | cut -c1-160 | tr '"' "'")
    res="$res\"$p\": {\"exit\": $rc, \"first_signature\": \"$sig\"},"
    [ $rc -ne 0 ] && echo "[$n] $p exit=$rc $sig"
  done
  echo "${res%,}}" > $d/result.json
  echo "[$n] done"
  git checkout -- . ; git clean -fdq src
done
