#!/bin/bash
# Like seedcheck.sh, but never touches /repo: every seeded change without a result.json (or all, with
# FORCE=1) is applied in a scratch worktree and the checks named in its meta.json are run against that
# worktree through a copy of the harness (tools/labcheck.sh). Records seeded/<id>/result.json.
WT=${SEEDWT:-/tmp/seedwt}
git -C /repo worktree add --detach $WT HEAD >/dev/null 2>&1 || true
trap 'git -C /repo worktree remove --force $WT >/dev/null 2>&1; rm -rf /tmp/lab/$(echo $WT | tr / _)' EXIT
for d in ${@:-/verif/seeded/*/}; do
  d=${d%/}; id=$(basename $d)
  if [ -f $d/result.json ] && [ -z "${FORCE:-}" ]; then continue; fi
  props=$(python3 -c "import json;m=json.load(open('$d/meta.json'));print(' '.join(m.get('detected_by',{}).keys()))")
  git -C $WT checkout -- . ; git -C $WT apply $d/patch.diff || { echo "[$id] patch does not apply"; continue; }
  out=$(/verif/tools/labcheck.sh $WT $props 2>&1)
  echo "$out" | sed "s/^/[$id] /"
  python3 - "$d" <<PY
import re,sys,json
out='''$out'''
res={}
for m in re.finditer(r"^\[(C\d\d)\] exit=(\d+)\s*(.*)$", out, re.M):
    sig=re.search(r"signature=([^|]*)", m.group(3))
    res[m.group(1)]={"exit":int(m.group(2)),"first_signature":(sig.group(1).strip() if sig else "")[:160]}
json.dump(res,open(sys.argv[1]+"/result.json","w"))
PY
  git -C $WT checkout -- .
done
