#!/bin/bash
# usage: labcheck.sh <repo-worktree> <prop> [<prop>...]
# Development aid: run the checks against ANOTHER copy of the repository (a scratch worktree) without
# touching /repo: a copy of the harness is pointed at that worktree and built in its own target dir.
# (Registered checks and committed evidence always come from ./check against /repo itself.)
set -u
WT=$(realpath "$1"); shift
LAB=/tmp/lab/$(echo "$WT" | tr '/' '_')
mkdir -p "$LAB"
rsync -a --delete /verif/harness/ "$LAB/harness/" --exclude target
sed -i "s#path = \"/repo\"#path = \"$WT\"#" "$LAB/harness/Cargo.toml"
( cd "$LAB/harness" && CARGO_NET_OFFLINE=true CARGO_TARGET_DIR="$LAB/target" cargo build --release --offline 2> "$LAB/build.log" ) || { tail -20 "$LAB/build.log"; echo "BUILD FAILED"; exit 2; }
for p in "$@"; do
  out=$(cd /verif && VERIF_REPO="$WT" VERIF_NO_EVIDENCE=1 "$LAB/target/release/atsmon" $p ${TIER:-quick} 2>&1); rc=$?
  echo "[$p] exit=$rc $(echo "$out" | grep -E 'signature=' | head -3 | tr '\n' '|' | cut -c1-400)"
  if [ $rc -eq 2 ]; then echo "$out" | grep -E "INCONCLUSIVE" | head -3; fi
done
