#!/bin/bash
# Substrate check (DESIGN section 5): the release monitor binary under valgrind memcheck over a reduced
# workload (all W0 scenarios, the small matrices, a sample of every random regime, all monitors and
# probes on). A memcheck error is INCONCLUSIVE for the behavioural verdicts (exit 2), never a
# property violation. Result is written to /verif/sanitize/memcheck.last.json.
set -u
BIN=${CARGO_TARGET_DIR:-/verif/.target}/release/atsmon
LOG=/verif/out/memcheck.log
mkdir -p /verif/out
start=$(date +%s)
VERIF_NO_EVIDENCE=1 VERIF_THREADS=4 VERIF_TASK_LIMIT=${VERIF_TASK_LIMIT:-24} VERIF_WATCHDOG_S=3000 \
  valgrind --tool=memcheck --error-exitcode=99 --leak-check=no --track-origins=no -q --log-file=$LOG \
  "$BIN" ALL quick > /verif/out/memcheck.stdout 2>&1
rc=$?
end=$(date +%s)
errs=$(grep -c "^==[0-9]*== [A-Z]" $LOG 2>/dev/null); errs=${errs:-0}
line=$(grep -E "^ALL quick" /verif/out/memcheck.stdout | head -1 | tr -d '"')
echo "{\"tool\": \"valgrind memcheck $(valgrind --version)\", \"exit\": $rc, \"error_lines\": $errs, \"wall_s\": $((end-start)), \"workload\": \"$line\"}" > /verif/sanitize/memcheck.last.json
cat /verif/sanitize/memcheck.last.json
if [ $rc -eq 99 ] || [ "$errs" != "0" ]; then echo "INCONCLUSIVE: memcheck reported errors; see $LOG"; exit 2; fi
if [ $rc -ne 0 ]; then echo "monitor exit code under memcheck: $rc"; tail -5 /verif/out/memcheck.stdout; exit $rc; fi
echo "memcheck clean"
