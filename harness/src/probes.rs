// Active probes: requests issued on COPIES of a visited state (never affecting the history).
use crate::exact::*;
use crate::model::*;
use crate::mon::*;
use crate::rng::Rng;
use crate::sim::*;
use crate::stats::*;
use crate::view::*;
use serde_json::{json, Value};

/// run one request on a copy of the state with every step monitor on
pub fn run_probe(w: &World, h: &Hist, op: &Op, st: &mut Stats, out: &mut Vec<Viol>) -> Outcome {
    let mut w2 = w.clone();
    let o = w2.apply(op);
    let mut h2 = h.clone();
    let n0 = out.len();
    let ctx = StepCtx {
        pre: w,
        post: &w2,
        op,
        out: &o,
        pre_book: Book::read(w),
        post_book: Book::read(&w2),
        pre_cfg: read_cfg(w),
        post_cfg: read_cfg(&w2),
    };
    check_step(&ctx, &mut h2, st, out);
    for v in out[n0..].iter_mut() {
        v.probe = Some(op.to_json());
    }
    st.g("probes");
    o
}

fn tag(out: &mut Vec<Viol>, n0: usize, op: &Op) {
    for v in out[n0..].iter_mut() {
        v.probe = Some(op.to_json());
    }
}

fn exec(sender: &str, funds: Vec<(String, u128)>, msg: Value) -> Op {
    Op::Exec { sender: sender.to_string(), funds, msg }
}

fn id_form(id: &str) -> &'static str {
    if canon_uuid(id) {
        "canonical"
    } else if id.len() == 32 {
        "unhyphenated"
    } else {
        "other"
    }
}

// ------------------------------------------------------------------------------------------------
/// C06: every open order can be cancelled by its owner and expired by an executor, in full.
/// "The request succeeds" includes the messages it returns: the marker module carries out a brokered transfer
/// only for a restricted marker, so an exit whose payout is a marker transfer of any other denomination fails
/// as a whole on chain (the simulator applies it all the same, so that C10 can judge the mechanism).
fn unpayable_exit(w: &World, o: &Outcome, mode: &str, st: &mut Stats, out: &mut Vec<Viol>) {
    if let Outcome::Ok { xfers, .. } = o {
        st.count("C06", "exit_payout_messages_checked_against_the_marker_module");
        for x in xfers {
            if let Xfer::Marker { denom, .. } = x {
                if !restricted(w, denom) {
                    viol(out, "C06", "exit", "exit pays out by a marker transfer that the marker module refuses (denomination is not a restricted marker)", format!("{}: {:?} ; marker table {:?}", mode, x, w.chain.markers));
                }
            }
        }
    }
}

pub fn exit_probes(w: &World, book: &Book, cfg: &Cfg, st: &mut Stats, out: &mut Vec<Viol>) {
    let executor = cfg.executors.first().cloned();
    for (id, a) in &book.asks {
        for mode in ["cancel_ask", "expire_ask"] {
            let sender = if mode == "cancel_ask" {
                a.owner.clone()
            } else {
                match &executor {
                    Some(e) => e.clone(),
                    None => continue,
                }
            };
            let mut w2 = w.clone();
            let pop = exec(&sender, vec![], json!({mode: {"id": id}}));
            let o = w2.apply(&pop);
            let n0 = out.len();
            st.eval("C06", format!("{}|{}|lot:{}|id:{}|m:{}{}", mode, a.class.name(), a.size % cfg.inc == 0, id_form(id), marker_of(w, &a.base).short(), marker_of(w, &cfg.base).short()));
            st.count("C06", "exit_probes");
            st.sample("C06", || json!({"probe": pop.to_json(), "order": a.raw, "outcome": o.tag(), "net_delta": ledger_delta(w, &w2).iter().map(|(k, v)| json!([k.0, k.1, v.to_string()])).collect::<Vec<_>>()}), 3);
            if !o.is_ok() {
                viol(out, "C06", "exit", &format!("{} of an open ask refused", mode), format!("{:?} ; ask {} ; increment {}", o, a.raw, cfg.inc));
                tag(out, n0, &pop);
                continue;
            }
            unpayable_exit(w, &o, mode, st, out);
            let exp = expect_reverse_ask(a, a.size);
            // an approved ask returns the ENTIRE recorded approver amount
            let mut expd = Ledger::new();
            add(&mut expd, &a.owner, &a.base, a.size as i128);
            if let AskClass::Ready { approver, cb_denom, cb_amount } = &a.class {
                add(&mut expd, approver, cb_denom, *cb_amount as i128);
            }
            let expd = close(expd);
            let got = ledger_delta(w, &w2);
            if got != expd {
                viol(out, "C06", "exit", "exit did not return the entire remaining escrow", format!("{}: observed {:?} expected {:?} ; ask {}", mode, got, expd, a.raw));
            }
            let _ = exp;
            if w2.scan_raw("ask").iter().any(|x| &x.0 == id) {
                viol(out, "C06", "exit", "order still on the book after its exit", format!("{} {}", mode, id));
            }
            tag(out, n0, &pop);
        }
    }
    for (id, b) in &book.bids {
        for mode in ["cancel_bid", "expire_bid"] {
            let sender = if mode == "cancel_bid" {
                b.owner.clone()
            } else {
                match &executor {
                    Some(e) => e.clone(),
                    None => continue,
                }
            };
            let mut w2 = w.clone();
            let pop = exec(&sender, vec![], json!({mode: {"id": id}}));
            let o = w2.apply(&pop);
            let n0 = out.len();
            st.eval("C06", format!("{}|filled:{}|lot:{}|fee:{}|id:{}|m:{}", mode, b.acc_base > 0, b.rem_base().max(0) as u128 % cfg.inc == 0, if b.fee.is_none() { "none" } else if b.rem_fee() == 0 { "0" } else { "pos" }, id_form(id), marker_of(w, &b.quote_denom).short()));
            st.count("C06", "exit_probes");
            if b.rem_base().max(0) as u128 % cfg.inc != 0 {
                st.count("C06", "exit_probes_on_non_lot_remainder");
            }
            if !o.is_ok() {
                viol(out, "C06", "exit", &format!("{} of an open bid refused", mode), format!("{:?} ; bid {} ; increment {}", o, b.raw, cfg.inc));
                tag(out, n0, &pop);
                continue;
            }
            unpayable_exit(w, &o, mode, st, out);
            let mut expd = Ledger::new();
            add(&mut expd, &b.owner, &b.quote_denom, b.rem_quote() + b.rem_fee());
            let expd = close(expd);
            let got = ledger_delta(w, &w2);
            if got != expd {
                viol(out, "C06", "exit", "exit did not return the entire remaining escrow", format!("{}: observed {:?} expected {:?} ; bid {}", mode, got, expd, b.raw));
            }
            if w2.scan_raw("bid").iter().any(|x| &x.0 == id) {
                viol(out, "C06", "exit", "order still on the book after its exit", format!("{} {}", mode, id));
            }
            tag(out, n0, &pop);
        }
    }
}

// ------------------------------------------------------------------------------------------------
fn funds_for(w: &World, denom: &str, amt: u128) -> Vec<(String, u128)> {
    if restricted(w, denom) {
        vec![]
    } else {
        vec![(denom.to_string(), amt)]
    }
}

/// a crossing (ask, bid) pair if the book has one
pub fn crossing_pair<'a>(book: &'a Book, r: &mut Rng) -> Option<(&'a Ask, &'a Bid)> {
    let mut pairs = vec![];
    for a in book.asks.values() {
        if a.class == AskClass::Pending {
            continue;
        }
        for b in book.bids.values() {
            if a.quote != b.quote_denom {
                continue;
            }
            if let (Some(ap), Some(bp)) = (parse_dec(&a.price), parse_dec(&b.price)) {
                if ap.cmp_val(&bp) != std::cmp::Ordering::Greater {
                    pairs.push((a, b));
                }
            }
        }
    }
    if pairs.is_empty() {
        None
    } else {
        Some(pairs[r.below(pairs.len() as u64) as usize])
    }
}

/// C05: sender class x request kind matrix at this state
pub fn auth_matrix(w: &World, h: &Hist, book: &Book, cfg: &Cfg, r: &mut Rng, st: &mut Stats, out: &mut Vec<Viol>) {
    let mut reqs: Vec<(String, Value, Option<(String, u128)>)> = vec![]; // (kind, msg, escrow needed)
    let asks: Vec<&Ask> = book.asks.values().collect();
    let bids: Vec<&Bid> = book.bids.values().collect();
    let mut ask = if asks.is_empty() { None } else { Some(*r.pick(&asks)) };
    let mut bid = if bids.is_empty() { None } else { Some(*r.pick(&bids)) };
    // orders that have a twin - another order of the same side stored under another spelling of the same
    // UUID (a legacy key and its hyphenated form), usually with another owner - are preferred: look-ups that
    // try several spellings can mix the two up
    let twin_asks: Vec<&Ask> = book.asks.iter().filter(|(k, _)| book.asks.keys().any(|k2| k2 != *k && uuid_hex(k2).is_some() && uuid_hex(k2) == uuid_hex(k))).map(|(_, a)| a).collect();
    let twin_bids: Vec<&Bid> = book.bids.iter().filter(|(k, _)| book.bids.keys().any(|k2| k2 != *k && uuid_hex(k2).is_some() && uuid_hex(k2) == uuid_hex(k))).map(|(_, b)| b).collect();
    if !twin_asks.is_empty() && r.chance(70) {
        ask = Some(*r.pick(&twin_asks));
        st.count("C05", "matrix_on_an_ask_with_a_twin_under_another_spelling");
    }
    if !twin_bids.is_empty() && r.chance(70) {
        bid = Some(*r.pick(&twin_bids));
        st.count("C05", "matrix_on_a_bid_with_a_twin_under_another_spelling");
    }
    if let Some(a) = ask {
        reqs.push(("cancel_ask".into(), json!({"cancel_ask": {"id": a.id}}), None));
        reqs.push(("expire_ask".into(), json!({"expire_ask": {"id": a.id}}), None));
        let sz = if a.size >= cfg.inc && r.chance(70) { json!(cfg.inc.to_string()) } else { Value::Null };
        reqs.push(("reject_ask".into(), json!({"reject_ask": {"id": a.id, "size": sz}}), None));
    }
    // explicit sizes equal to the whole remainder (which need not be a lot multiple)
    if let Some(a) = ask {
        reqs.push(("reject_ask".into(), json!({"reject_ask": {"id": a.id, "size": a.size.to_string()}}), None));
    }
    if let Some(b) = bid {
        reqs.push(("reject_bid".into(), json!({"reject_bid": {"id": b.id, "size": (b.rem_base().max(0) as u128).to_string()}}), None));
    }
    if let Some(a) = asks.iter().find(|a| a.class == AskClass::Pending) {
        reqs.push(("approve_ask".into(), json!({"approve_ask": {"id": a.id, "base": cfg.base, "size": a.size.to_string()}}), Some((cfg.base.clone(), a.size))));
    }
    if let Some(b) = bid {
        reqs.push(("cancel_bid".into(), json!({"cancel_bid": {"id": b.id}}), None));
        reqs.push(("expire_bid".into(), json!({"expire_bid": {"id": b.id}}), None));
        let sz = if b.rem_base() as u128 >= cfg.inc && r.chance(70) { json!(cfg.inc.to_string()) } else { Value::Null };
        reqs.push(("reject_bid".into(), json!({"reject_bid": {"id": b.id, "size": sz}}), None));
    }
    if let Some((a, b)) = crossing_pair(book, r) {
        let s = a.size.min(b.rem_base().max(0) as u128);
        reqs.push(("execute_match".into(), json!({"execute_match": {"ask_id": a.id, "bid_id": b.id, "price": b.price, "size": s.to_string()}}), None));
    }
    reqs.push(("modify_contract".into(), json!({"modify_contract": {"executors": cfg.executors}}), None));
    // sender classes
    let mut senders: Vec<String> = vec!["stranger".into(), CONTRACT.into()];
    if let Some(a) = ask {
        senders.push(a.owner.clone());
    }
    if let Some(b) = bid {
        senders.push(b.owner.clone());
    }
    // owners of the other orders on the book (first the twins' owners)
    let mut others: Vec<String> = twin_asks.iter().map(|a| a.owner.clone()).chain(twin_bids.iter().map(|b| b.owner.clone())).collect();
    others.extend(book.asks.values().map(|a| a.owner.clone()).chain(book.bids.values().map(|b| b.owner.clone())));
    let mut seen = std::collections::BTreeSet::new();
    others.retain(|o| seen.insert(o.clone()));
    senders.extend(others.into_iter().take(6));
    senders.extend(cfg.approvers.iter().cloned());
    senders.extend(cfg.executors.iter().cloned());
    if let Some(f) = &cfg.ask_fee {
        senders.push(f.account.clone());
    }
    if let Some(f) = &cfg.bid_fee {
        senders.push(f.account.clone());
    }
    // look-alikes of role holders and owners: another letter case, one character more, one less
    let real: Vec<String> = senders.iter().filter(|s| s.as_str() != "stranger" && s.as_str() != CONTRACT).cloned().collect();
    if !real.is_empty() {
        let s0 = r.pick(&real).clone();
        senders.push(s0.to_uppercase());
        senders.push(format!("{}x", s0));
        if s0.len() > 1 {
            senders.push(s0[..s0.len() - 1].to_string());
        }
    }
    senders.sort();
    senders.dedup();
    // configuration requests in which the sender names itself for a role
    for s in &senders {
        for msg in [json!({"modify_contract": {}}), json!({"modify_contract": {"approvers": null, "executors": null}}), json!({"modify_contract": {"executors": [s]}}), json!({"modify_contract": {"executors": [s, cfg.executors.first().cloned().unwrap_or_default()], "approvers": [s]}}), json!({"modify_contract": {"approvers": cfg.approvers.iter().cloned().chain(std::iter::once(s.clone())).collect::<Vec<_>>()}})] {
            let o = run_probe(w, h, &exec(s, vec![], msg), st, out);
            st.eval("C05", format!("matrix|modify_contract-self-named|{}|{}", role_set(cfg, book, s, ""), o.tag()));
            st.count("C05", "matrix_probes");
            if !o.is_ok() {
                st.count("C05", "matrix_probes_refused");
            }
        }
    }
    for (kind, msg, escrow) in &reqs {
        for s in &senders {
            let funds = match escrow {
                Some((d, a)) => funds_for(w, d, *a),
                None => vec![],
            };
            let o = run_probe(w, h, &exec(s, funds, msg.clone()), st, out);
            let id = msg[kind.as_str()]["id"].as_str().unwrap_or("");
            let roles = role_set(cfg, book, s, id);
            st.eval("C05", format!("matrix|{}|{}|{}", kind, roles, o.tag()));
            if roles != "-" && !o.is_ok() {
                st.sample("C05", || json!({"probe": msg, "sender": s, "sender_roles": roles, "outcome": o.tag()}), 3);
            }
            st.count("C05", "matrix_probes");
            if o.is_ok() {
                st.count("C05", "matrix_probes_accepted_from_rightful_or_flagged");
            } else {
                st.count("C05", "matrix_probes_refused");
            }
        }
    }
}

// ------------------------------------------------------------------------------------------------
fn dec_to_string(mant: W, scale: u32) -> String {
    let s = mant.to_string();
    if scale == 0 {
        return s;
    }
    let s = format!("{:0>width$}", s, width = scale as usize + 1);
    let (i, f) = s.split_at(s.len() - scale as usize);
    format!("{}.{}", i, f)
}

/// C03: boundary requests around the current remainders and prices of a pair
pub fn match_boundary(w: &World, h: &Hist, book: &Book, cfg: &Cfg, r: &mut Rng, st: &mut Stats, out: &mut Vec<Viol>) {
    let asks: Vec<&Ask> = book.asks.values().collect();
    let bids: Vec<&Bid> = book.bids.values().collect();
    if asks.is_empty() || bids.is_empty() {
        return;
    }
    let (a, b) = match crossing_pair(book, r) {
        Some(p) if r.chance(75) => p,
        _ => (*r.pick(&asks), *r.pick(&bids)),
    };
    let executor = match cfg.executors.first() {
        Some(e) => e.clone(),
        None => return,
    };
    let (ap, bp) = match (parse_dec(&a.price), parse_dec(&b.price)) {
        (Some(x), Some(y)) => (x, y),
        _ => return,
    };
    let arem = a.size;
    let brem = b.rem_base().max(0) as u128;
    let m = arem.min(brem);
    let mut sizes = vec![0u128, 1, m.saturating_sub(1), m, m + 1, arem, brem, arem + 1, brem + 1, cfg.inc];
    sizes.sort();
    sizes.dedup();
    let sc = ap.scale.max(bp.scale) + 1;
    let am = ap.mantw() * pow10(sc - ap.scale);
    let bm = bp.mantw() * pow10(sc - bp.scale);
    let mid = dec_to_string((am + bm) / wi(2), sc);
    let below = dec_to_string(if am > wi(1) { am - wi(1) } else { wi(0) }, sc);
    let above = dec_to_string(bm + wi(1), sc);
    let tz = |p: &str| if p.contains('.') { format!("{}0", p) } else { format!("{}.0", p) };
    let prices = vec![a.price.clone(), b.price.clone(), mid, below, above, tz(&a.price), format!("0{}", b.price), tz(&b.price)];
    // a sample of the grid each time (full grid in the thorough tier is reached over many states)
    for p in &prices {
        for s in &sizes {
            if !r.chance(40) {
                continue;
            }
            let msg = json!({"execute_match": {"ask_id": a.id, "bid_id": b.id, "price": p, "size": s.to_string()}});
            run_probe(w, h, &exec(&executor, vec![], msg), st, out);
            st.count("C03", "boundary_probes");
        }
    }
    // wrong sender / funds attached / non-canonical ids, on the request most likely to be legal
    let legal = json!({"execute_match": {"ask_id": a.id, "bid_id": b.id, "price": b.price, "size": m.to_string()}});
    run_probe(w, h, &exec("stranger", vec![], legal.clone()), st, out);
    run_probe(w, h, &exec(&a.owner, vec![], legal.clone()), st, out);
    run_probe(w, h, &exec(&executor, vec![(cfg.base.clone(), 1)], legal.clone()), st, out);
    let up = json!({"execute_match": {"ask_id": a.id.to_uppercase(), "bid_id": b.id, "price": b.price, "size": m.to_string()}});
    run_probe(w, h, &exec(&executor, vec![], up), st, out);
    let unh = json!({"execute_match": {"ask_id": a.id, "bid_id": b.id.replace('-', ""), "price": b.price, "size": m.to_string()}});
    run_probe(w, h, &exec(&executor, vec![], unh), st, out);
    st.count_n("C03", "boundary_probes", 5);
}

/// C08: approval attempted on asks of every class, by every approver (and the recorded approver),
/// with exact, short and excess escrow
pub fn approve_probes(w: &World, h: &Hist, book: &Book, cfg: &Cfg, r: &mut Rng, st: &mut Stats, out: &mut Vec<Viol>) {
    let asks: Vec<&Ask> = book.asks.values().collect();
    if asks.is_empty() {
        return;
    }
    let a = *r.pick(&asks);
    let mut senders: Vec<String> = cfg.approvers.clone();
    if let AskClass::Ready { approver, .. } = &a.class {
        senders.push(approver.clone());
    }
    senders.push(a.owner.clone());
    senders.extend(cfg.executors.iter().cloned());
    senders.push("stranger".into());
    // look-alikes of an approver: another letter case, one character more, one less
    if !cfg.approvers.is_empty() {
        let s0 = r.pick(&cfg.approvers).clone();
        senders.push(s0.to_uppercase());
        senders.push(format!("{}x", s0));
        if s0.len() > 1 {
            senders.push(s0[..s0.len() - 1].to_string());
        }
    }
    senders.sort();
    senders.dedup();
    for s in &senders {
        for (size, fund) in [(a.size, a.size), (a.size + 1, a.size + 1), (a.size.saturating_sub(1).max(1), a.size.saturating_sub(1).max(1)), (a.size, a.size + 1), (a.size, a.size.saturating_sub(1))] {
            let funds = if restricted(w, &cfg.base) { if fund == size { vec![] } else { vec![(cfg.base.clone(), 1)] } } else { vec![(cfg.base.clone(), fund)] };
            let msg = json!({"approve_ask": {"id": a.id, "base": cfg.base, "size": size.to_string()}});
            let o = run_probe(w, h, &exec(s, funds, msg), st, out);
            st.eval("C08", format!("probe|{}|approver:{}|{}", a.class.name(), cfg.approvers.contains(s), o.tag()));
            st.count("C08", "approve_probes");
        }
    }
}

/// C04: explicit partial sizes from 1 to beyond the remainder
pub fn reverse_boundary(w: &World, h: &Hist, book: &Book, cfg: &Cfg, r: &mut Rng, st: &mut Stats, out: &mut Vec<Viol>) {
    let executor = match cfg.executors.first() {
        Some(e) => e.clone(),
        None => return,
    };
    let asks: Vec<&Ask> = book.asks.values().collect();
    let bids: Vec<&Bid> = book.bids.values().collect();
    let mut go = |kind: &str, id: &str, rem: u128, r: &mut Rng| {
        let mut sizes = vec![0u128, 1, cfg.inc, rem.saturating_sub(cfg.inc), rem, rem + cfg.inc, rem + 1, rem.saturating_sub(1), cfg.inc * (1 + r.below(4) as u128)];
        sizes.sort();
        sizes.dedup();
        for s in sizes {
            let msg = json!({kind: {"id": id, "size": s.to_string()}});
            run_probe(w, h, &exec(&executor, vec![], msg), st, out);
            st.count("C04", "partial_size_probes");
        }
        run_probe(w, h, &exec(&executor, vec![(cfg.base.clone(), 1)], json!({kind: {"id": id}})), st, out);
    };
    if !asks.is_empty() {
        let a = *r.pick(&asks);
        go("reject_ask", &a.id, a.size, r);
    }
    if !bids.is_empty() {
        let b = *r.pick(&bids);
        go("reject_bid", &b.id, b.rem_base().max(0) as u128, r);
    }
}

// ------------------------------------------------------------------------------------------------
/// C16: query battery at this state
pub fn query_battery(w: &World, h: &Hist, book: &Book, r: &mut Rng, st: &mut Stats, out: &mut Vec<Viol>) {
    let mut ids: Vec<(String, &'static str)> = vec![];
    for id in book.asks.keys().chain(book.bids.keys()) {
        ids.push((id.clone(), "open"));
        if canon_uuid(id) {
            ids.push((id.replace('-', ""), "legacy-form-of-open"));
            ids.push((id.to_uppercase(), "upper-form-of-open"));
        }
    }
    // orders that completely left the book (by the harness's own bookkeeping of what each accepted
    // request returned), not re-created since: the query of that side must fail whatever storage holds
    for ((side, id), how) in h.closed.iter() {
        ids.push((id.clone(), how));
        let kind = if *side == 'a' { "get_ask" } else { "get_bid" };
        let res = w.query(&json!({kind: {"id": id}}));
        st.eval("C16", format!("{}|closed:{}|{}", kind, how, if res.is_ok() { "ok" } else { "err" }));
        if let Ok(v) = res {
            viol(out, "C16", "query", "query succeeded for an order that has completely left the book", format!("{} {} ({}) returned {}", kind, id, how, v));
        }
    }
    ids.push(("ffffffff-ffff-4fff-8fff-ffffffffffff".into(), "never-used"));
    ids.push(("not-a-uuid".into(), "malformed"));
    ids.push(("".into(), "malformed"));
    // keep the battery bounded on deep books
    while ids.len() > 24 {
        let i = r.below(ids.len() as u64) as usize;
        ids.swap_remove(i);
    }
    for (id, status) in &ids {
        for (kind, ns) in [("get_ask", "ask"), ("get_bid", "bid")] {
            let res = w.query(&json!({kind: {"id": id}}));
            let raw = w.store.data.get(&map_key(ns, id)).and_then(|v| serde_json::from_slice::<Value>(v).ok());
            // entries in another storage format (legacy bids before a migration) are not judged here
            let current_format = match (&raw, ns) {
                (Some(v), "ask") => Ask::from_json(v).is_some(),
                (Some(v), _) => Bid::from_json(v).is_some(),
                (None, _) => true,
            };
            if !current_format {
                continue;
            }
            let on_book = raw.is_some();
            st.eval("C16", format!("{}|{}|{}|{}", kind, if on_book { "on-book" } else { status }, if canon_uuid(id) { "canonical" } else { "other-form" }, if res.is_ok() { "ok" } else { "err" }));
            if on_book || *status != "open" {
                st.sample("C16", || json!({"query": {kind: {"id": id}}, "id_status": if on_book { "on-book" } else { status }, "result": match &res { Ok(v) => v.clone(), Err(e) => json!({"error": e.chars().take(80).collect::<String>()}) }}), 4);
            }
            match (&res, &raw) {
                (Err(e), _) if e == "QUERY-MUTATED-STORAGE" => viol(out, "C16", "query", "a query modified storage", format!("{} {}", kind, id)),
                (Ok(v), Some(rw)) => {
                    if v != rw {
                        viol(out, "C16", "query", "query result differs from the order on the book", format!("{} {}: returned {} stored {}", kind, id, v, rw));
                    }
                }
                (Ok(v), None) => viol(out, "C16", "query", "query succeeded for an id that is not on the book", format!("{} {} ({}) returned {}", kind, id, status, v)),
                (Err(e), Some(_)) => viol(out, "C16", "query", "query failed for an order that is on the book", format!("{} {}: {}", kind, id, e)),
                (Err(_), None) => {}
            }
        }
    }
    for (kind, key) in [("get_contract_info", "contract_info"), ("get_version_info", "version_info")] {
        let res = w.query(&json!({kind: {}}));
        let raw = w.item_raw(key);
        st.eval("C16", format!("{}|{}", kind, if res.is_ok() { "ok" } else { "err" }));
        match (&res, &raw) {
            (Ok(v), Some(rw)) if v == rw => {}
            _ => viol(out, "C16", "query", "configuration / version query differs from the stored record", format!("{}: returned {:?} stored {:?}", kind, res, raw)),
        }
    }
    // what a query reports is what a cancel returns
    let open: Vec<(&String, bool)> = book.asks.keys().map(|k| (k, true)).chain(book.bids.keys().map(|k| (k, false))).collect();
    let mut picks: Vec<(&String, bool)> = open.clone();
    while picks.len() > 8 {
        let i = r.below(picks.len() as u64) as usize;
        picks.swap_remove(i);
    }
    for (id, is_ask) in picks {
        let q = w.query(&json!({if is_ask { "get_ask" } else { "get_bid" }: {"id": id}}));
        if let Ok(v) = q {
            let mut expd = Ledger::new();
            let owner = v["owner"].as_str().unwrap_or("").to_string();
            if is_ask {
                add(&mut expd, &owner, v["base"].as_str().unwrap_or(""), u(&v["size"]).unwrap_or(0) as i128);
                let rd = &v["class"]["Convertible"]["status"]["Ready"];
                if rd.is_object() {
                    add(&mut expd, rd["approver"].as_str().unwrap_or(""), rd["converted_base"]["denom"].as_str().unwrap_or(""), u(&rd["converted_base"]["amount"]).unwrap_or(0) as i128);
                }
            } else {
                let held = u(&v["quote"]["amount"]).unwrap_or(0) as i128 - u(&v["accumulated_quote"]).unwrap_or(0) as i128
                    + if v["fee"].is_null() { 0 } else { u(&v["fee"]["amount"]).unwrap_or(0) as i128 - u(&v["accumulated_fee"]).unwrap_or(0) as i128 };
                add(&mut expd, &owner, v["quote"]["denom"].as_str().unwrap_or(""), held);
            }
            let expd = close(expd);
            let mut w2 = w.clone();
            let o = w2.apply(&exec(&owner, vec![], json!({if is_ask { "cancel_ask" } else { "cancel_bid" }: {"id": id}})));
            st.eval("C16", format!("cancel-agrees|{}|{}", if is_ask { "ask" } else { "bid" }, o.tag()));
            if o.is_ok() {
                let got = ledger_delta(w, &w2);
                if got != expd {
                    viol(out, "C16", "query-vs-cancel", "amounts reported by the query differ from what a cancel returns", format!("query {} ; cancel moved {:?} ; expected {:?}", v, got, expd));
                }
            }
        }
    }
    st.count("C16", "query_batteries");
}
