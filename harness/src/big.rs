// Fixed-capacity unsigned big integer (768 bits) in safe Rust, used by the oracles instead of
// cosmwasm_std::Uint512: Miri reports a Stacked Borrows violation inside bnum 0.8.0 (the crate behind
// Uint256/Uint512: `out.digits.as_ptr().cast_mut()` in `unchecked_shl_internal`), and the oracle
// should not rest on it. The contract under test never uses those types.
use std::cmp::Ordering;
use std::ops::{Add, Div, Mul, Rem, Sub};

const N: usize = 24;

#[derive(Clone, Copy, Debug, PartialEq, Eq)]
pub struct Big {
    l: [u32; N], // little endian limbs
}

impl Big {
    pub const ZERO: Big = Big { l: [0; N] };
    pub fn from_u128(v: u128) -> Big {
        let mut l = [0u32; N];
        l[0] = v as u32;
        l[1] = (v >> 32) as u32;
        l[2] = (v >> 64) as u32;
        l[3] = (v >> 96) as u32;
        Big { l }
    }
    pub fn is_zero(&self) -> bool {
        self.l.iter().all(|x| *x == 0)
    }
    fn len(&self) -> usize {
        let mut n = N;
        while n > 0 && self.l[n - 1] == 0 {
            n -= 1;
        }
        n
    }
    pub fn to_u128(&self) -> Option<u128> {
        if self.len() > 4 {
            return None;
        }
        Some(self.l[0] as u128 | (self.l[1] as u128) << 32 | (self.l[2] as u128) << 64 | (self.l[3] as u128) << 96)
    }
    pub fn parse_dec(s: &str) -> Option<Big> {
        if s.is_empty() || !s.bytes().all(|b| b.is_ascii_digit()) {
            return None;
        }
        let mut r = Big::ZERO;
        for b in s.bytes() {
            r = r.mul_small(10)?.add_small((b - b'0') as u32)?;
        }
        Some(r)
    }
    fn mul_small(&self, m: u32) -> Option<Big> {
        let mut out = [0u32; N];
        let mut carry = 0u64;
        for i in 0..N {
            let v = self.l[i] as u64 * m as u64 + carry;
            out[i] = v as u32;
            carry = v >> 32;
        }
        if carry != 0 {
            return None;
        }
        Some(Big { l: out })
    }
    fn add_small(&self, a: u32) -> Option<Big> {
        let mut out = self.l;
        let mut carry = a as u64;
        for i in 0..N {
            if carry == 0 {
                break;
            }
            let v = out[i] as u64 + carry;
            out[i] = v as u32;
            carry = v >> 32;
        }
        if carry != 0 {
            return None;
        }
        Some(Big { l: out })
    }
    /// (quotient, remainder); panics on division by zero
    pub fn div_rem(&self, d: &Big) -> (Big, Big) {
        let n = d.len();
        assert!(n > 0, "division by zero");
        let m = self.len();
        if self.cmp(d) == Ordering::Less {
            return (Big::ZERO, *self);
        }
        if n == 1 {
            let dv = d.l[0] as u64;
            let mut q = [0u32; N];
            let mut rem = 0u64;
            for i in (0..m).rev() {
                let cur = (rem << 32) | self.l[i] as u64;
                q[i] = (cur / dv) as u32;
                rem = cur % dv;
            }
            return (Big { l: q }, Big::from_u128(rem as u128));
        }
        // Knuth algorithm D
        let s = d.l[n - 1].leading_zeros();
        let mut v = [0u32; N];
        let mut u = [0u32; N + 1];
        // normalise
        for i in (0..n).rev() {
            v[i] = (d.l[i] << s) | if s > 0 && i > 0 { d.l[i - 1] >> (32 - s) } else { 0 };
        }
        u[m] = if s > 0 { self.l[m - 1] >> (32 - s) } else { 0 };
        for i in (0..m).rev() {
            u[i] = (self.l[i] << s) | if s > 0 && i > 0 { self.l[i - 1] >> (32 - s) } else { 0 };
        }
        let mut q = [0u32; N];
        let b: u64 = 1 << 32;
        for j in (0..=(m - n)).rev() {
            let num = ((u[j + n] as u64) << 32) | u[j + n - 1] as u64;
            let mut qhat = num / v[n - 1] as u64;
            let mut rhat = num % v[n - 1] as u64;
            while qhat >= b || qhat * v[n - 2] as u64 > ((rhat << 32) | u[j + n - 2] as u64) {
                qhat -= 1;
                rhat += v[n - 1] as u64;
                if rhat >= b {
                    break;
                }
            }
            // multiply and subtract
            let mut borrow: i64 = 0;
            let mut carry: u64 = 0;
            for i in 0..n {
                let p = qhat * v[i] as u64 + carry;
                carry = p >> 32;
                let t = u[i + j] as i64 - borrow - (p & 0xffff_ffff) as i64;
                u[i + j] = t as u32;
                borrow = if t < 0 { 1 } else { 0 };
            }
            let t = u[j + n] as i64 - borrow - carry as i64;
            u[j + n] = t as u32;
            if t < 0 {
                // add back
                qhat -= 1;
                let mut c: u64 = 0;
                for i in 0..n {
                    let t2 = u[i + j] as u64 + v[i] as u64 + c;
                    u[i + j] = t2 as u32;
                    c = t2 >> 32;
                }
                u[j + n] = (u[j + n] as u64 + c) as u32;
            }
            q[j] = qhat as u32;
        }
        // denormalise remainder
        let mut r = [0u32; N];
        for i in 0..n {
            r[i] = (u[i] >> s) | if s > 0 { ((u[i + 1] as u64) << (32 - s)) as u32 } else { 0 };
        }
        (Big { l: q }, Big { l: r })
    }
}

impl std::fmt::Display for Big {
    fn fmt(&self, f: &mut std::fmt::Formatter<'_>) -> std::fmt::Result {
        if self.is_zero() {
            return write!(f, "0");
        }
        let mut parts: Vec<u32> = vec![];
        let mut cur = *self;
        let chunk = Big::from_u128(1_000_000_000);
        while !cur.is_zero() {
            let (q, r) = cur.div_rem(&chunk);
            parts.push(r.l[0]);
            cur = q;
        }
        let mut s = format!("{}", parts.pop().unwrap());
        while let Some(p) = parts.pop() {
            s.push_str(&format!("{:09}", p));
        }
        write!(f, "{}", s)
    }
}

impl PartialOrd for Big {
    fn partial_cmp(&self, o: &Big) -> Option<Ordering> {
        Some(self.cmp(o))
    }
}
impl Ord for Big {
    fn cmp(&self, o: &Big) -> Ordering {
        for i in (0..N).rev() {
            if self.l[i] != o.l[i] {
                return self.l[i].cmp(&o.l[i]);
            }
        }
        Ordering::Equal
    }
}
impl Add for Big {
    type Output = Big;
    fn add(self, o: Big) -> Big {
        let mut out = [0u32; N];
        let mut carry = 0u64;
        for i in 0..N {
            let v = self.l[i] as u64 + o.l[i] as u64 + carry;
            out[i] = v as u32;
            carry = v >> 32;
        }
        assert!(carry == 0, "Big overflow in add");
        Big { l: out }
    }
}
impl Sub for Big {
    type Output = Big;
    fn sub(self, o: Big) -> Big {
        let mut out = [0u32; N];
        let mut borrow = 0i64;
        for i in 0..N {
            let v = self.l[i] as i64 - o.l[i] as i64 - borrow;
            out[i] = v as u32;
            borrow = if v < 0 { 1 } else { 0 };
        }
        assert!(borrow == 0, "Big underflow in sub");
        Big { l: out }
    }
}
impl Mul for Big {
    type Output = Big;
    fn mul(self, o: Big) -> Big {
        let (a, b) = (self.len(), o.len());
        let mut out = [0u32; N];
        for i in 0..a {
            let mut carry = 0u64;
            for j in 0..b {
                assert!(i + j < N, "Big overflow in mul");
                let v = self.l[i] as u64 * o.l[j] as u64 + out[i + j] as u64 + carry;
                out[i + j] = v as u32;
                carry = v >> 32;
            }
            let mut k = i + b;
            while carry != 0 {
                assert!(k < N, "Big overflow in mul");
                let v = out[k] as u64 + carry;
                out[k] = v as u32;
                carry = v >> 32;
                k += 1;
            }
        }
        Big { l: out }
    }
}
impl Div for Big {
    type Output = Big;
    fn div(self, o: Big) -> Big {
        self.div_rem(&o).0
    }
}
impl Rem for Big {
    type Output = Big;
    fn rem(self, o: Big) -> Big {
        self.div_rem(&o).1
    }
}

#[cfg(test)]
mod tests {
    use super::*;
    use cosmwasm_std::Uint512;
    fn to512(b: &Big) -> Uint512 {
        b.to_string().parse::<Uint512>().unwrap()
    }
    #[test]
    fn agrees_with_uint512() {
        let mut s: u64 = 99;
        let mut next = || {
            s = s.wrapping_mul(6364136223846793005).wrapping_add(1442695040888963407);
            s
        };
        for it in 0..200_000 {
            let la = 1 + (next() % 4) as usize;
            let lb = 1 + (next() % 4) as usize;
            let mk = |n: usize, next: &mut dyn FnMut() -> u64| {
                let mut v = Big::from_u128(1);
                for _ in 0..n {
                    let limb = match next() % 5 { 0 => 0u128, 1 => u32::MAX as u128, 2 => 1, _ => (next() as u128) << 64 | next() as u128 };
                    v = v * Big::from_u128((1u128 << 100) + 1) + Big::from_u128(limb >> (next() % 128));
                }
                v
            };
            let a = mk(la, &mut next);
            let mut b = mk(lb, &mut next);
            if it % 7 == 0 {
                b = Big::from_u128(next() as u128 % 1000 + 1);
            }
            if a.to_string().len() + b.to_string().len() < 150 {
                assert_eq!(to512(&(a * b)), to512(&a) * to512(&b));
            }
            assert_eq!(to512(&(a + b)), to512(&a) + to512(&b));
            let (q, r) = a.div_rem(&b);
            assert_eq!(to512(&q), to512(&a) / to512(&b), "{} / {}", a, b);
            assert_eq!(to512(&r), to512(&a) % to512(&b), "{} % {}", a, b);
            assert_eq!(q * b + r, a);
            if a >= b {
                assert_eq!(to512(&(a - b)), to512(&a) - to512(&b));
            }
            assert_eq!(Big::parse_dec(&a.to_string()), Some(a));
        }
    }
}
