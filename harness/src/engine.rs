// History runner: applies ops through the real entry points, feeds the monitors and probes,
// records the event log.
use crate::gen::*;
use crate::model::*;
use crate::mon::*;
use crate::probes::*;
use crate::rng::Rng;
use crate::sim::*;
use crate::stats::*;
use crate::view::*;
use serde_json::{json, Value};

#[derive(Clone, Debug)]
pub struct Opts {
    pub focus: &'static str,
    pub exit_probes: bool,
    pub auth_pct: u64,
    pub boundary_pct: u64,
    pub revb_pct: u64,
    pub query_pct: u64,
    pub approve_pct: u64,
    pub drain: bool,
}
impl Opts {
    pub fn for_prop(p: &'static str) -> Opts {
        let mut o = Opts { focus: p, exit_probes: false, auth_pct: 0, boundary_pct: 0, revb_pct: 0, query_pct: 0, approve_pct: 0, drain: false };
        match p {
            "C01" => { o.drain = true; o.revb_pct = 3; }
            "C02" => { o.boundary_pct = 3; }
            "C03" => { o.boundary_pct = 25; }
            "C04" => { o.revb_pct = 25; }
            "C05" => { o.auth_pct = 30; }
            "C06" => { o.exit_probes = true; }
            "C08" => { o.approve_pct = 25; o.revb_pct = 3; o.boundary_pct = 2; }
            "C16" => { o.query_pct = 40; }
            "C17" => { o.revb_pct = 5; o.boundary_pct = 3; }
            "ALL" => { o.drain = true; o.exit_probes = true; o.auth_pct = 5; o.boundary_pct = 5; o.revb_pct = 5; o.query_pct = 5; o.approve_pct = 5; }
            _ => { o.boundary_pct = 2; o.revb_pct = 2; }
        }
        o
    }
}

#[derive(Clone, Debug)]
pub struct Found {
    pub viol: Viol,
    pub step: usize,
}

pub struct History {
    pub label: String,
    pub w: World,
    pub h: Hist,
    pub ops: Vec<Op>,
    pub outcomes: Vec<String>,
    pub found: Vec<Found>,
    pub stopped: bool,
    pub probe_rng: Rng,
}

impl History {
    pub fn new(label: &str, seed: u64) -> History {
        History { label: label.to_string(), w: World::new(), h: Hist::new(), ops: vec![], outcomes: vec![], found: vec![], stopped: false, probe_rng: Rng::new(seed ^ 0xABCD) }
    }

    /// apply one op with all monitors; returns the outcome
    pub fn step(&mut self, op: Op, opts: &Opts, st: &mut Stats) -> Outcome {
        let pre = self.w.clone();
        let out = self.w.apply(&op);
        let idx = self.ops.len();
        self.ops.push(op.clone());
        self.outcomes.push(out.tag().to_string());
        let mut viols = vec![];
        match &op {
            Op::Exec { .. } => {
                let ctx = StepCtx { pre: &pre, post: &self.w, op: &op, out: &out, pre_book: Book::read(&pre), post_book: Book::read(&self.w), pre_cfg: read_cfg(&pre), post_cfg: read_cfg(&self.w) };
                check_step(&ctx, &mut self.h, st, &mut viols);
                if out.is_ok() {
                    if let Some(cfg) = &ctx.post_cfg {
                        if opts.exit_probes {
                            exit_probes(&self.w, &ctx.post_book, cfg, st, &mut viols);
                        }
                        let r = &mut self.probe_rng;
                        if r.chance(opts.auth_pct) {
                            auth_matrix(&self.w, &self.h, &ctx.post_book, cfg, r, st, &mut viols);
                        }
                        if r.chance(opts.boundary_pct) {
                            match_boundary(&self.w, &self.h, &ctx.post_book, cfg, r, st, &mut viols);
                        }
                        if r.chance(opts.revb_pct) {
                            reverse_boundary(&self.w, &self.h, &ctx.post_book, cfg, r, st, &mut viols);
                        }
                        if r.chance(opts.approve_pct) {
                            approve_probes(&self.w, &self.h, &ctx.post_book, cfg, r, st, &mut viols);
                        }
                        if r.chance(opts.query_pct) {
                            query_battery(&self.w, &self.h, &ctx.post_book, r, st, &mut viols);
                        }
                    }
                }
            }
            Op::Inst { msg } => {
                check_instantiate(&pre, &self.w, msg, &out, st, &mut viols);
                if out.is_ok() {
                    self.h = Hist::new();
                }
            }
            Op::Migrate { msg } => {
                crate::migrate::check_migrate(&pre, &self.w, msg, &out, st, &mut viols);
                if out.is_ok() {
                    self.h.resync(&self.w);
                }
            }
            Op::PutRaw { .. } => self.h.resync(&self.w),
            _ => {}
        }
        for v in viols {
            if v.prop == opts.focus || opts.focus == "ALL" {
                self.stopped = true;
            }
            self.found.push(Found { viol: v, step: idx });
        }
        out
    }

    pub fn finish(&mut self, opts: &Opts, st: &mut Stats) {
        if opts.drain && !self.stopped {
            let mut viols = vec![];
            drain_check(&self.w, st, &mut viols);
            let idx = self.ops.len().saturating_sub(1);
            for v in viols {
                self.found.push(Found { viol: v, step: idx });
            }
        }
        st.g("histories");
        st.gn("steps", self.ops.iter().filter(|o| o.is_call()).count() as u64);
    }

    pub fn replay_json(&self, upto: usize) -> Value {
        json!({
            "label": self.label,
            "ops": self.ops.iter().take(upto + 1).map(|o| o.to_json()).collect::<Vec<_>>(),
            "outcomes_when_recorded": self.outcomes.iter().take(upto + 1).collect::<Vec<_>>(),
        })
    }
}

// ------------------------------------------------------------------------------------------------
/// C13: instantiate judged both ways + stored records equal the request
pub fn check_instantiate(pre: &World, post: &World, msg: &Value, out: &Outcome, st: &mut Stats, viols: &mut Vec<Viol>) {
    let v = instantiate_verdict(msg);
    let prec = msg.get("price_precision").and_then(|x| x.as_str()).unwrap_or("?").to_string();
    let inc_class = match (msg.get("size_increment").and_then(|x| x.as_str()).and_then(|x| x.parse::<u128>().ok()), prec.parse::<u32>().ok()) {
        (Some(i), Some(p)) if p <= 38 => {
            let t = 10u128.checked_pow(p).unwrap_or(u128::MAX);
            if i == 0 { "zero" } else if i == t { "=10^p" } else if i % t == 0 { "multiple" } else if i < t { "below" } else { "off-grid" }
        }
        _ => "n/a",
    };
    let fee_form = |r: &str, a: &str| -> &'static str {
        match (msg.get(r), msg.get(a)) {
            (None | Some(Value::Null), None | Some(Value::Null)) => "absent",
            (Some(Value::String(x)), Some(Value::String(y))) => if x.is_empty() && y.is_empty() { "empty-pair" } else if x.is_empty() || y.is_empty() { "half-empty" } else { "pair" },
            _ => "half",
        }
    };
    st.eval("C13", format!("{}|{}|p{}|inc:{}|af:{}|bf:{}", v.class(), out.tag(), prec, inc_class, fee_form("ask_fee_rate", "ask_fee_account"), fee_form("bid_fee_rate", "bid_fee_account")));
    if out.is_ok() {
        st.count("C13", "accepted_instantiations");
    }
    if st.props.get("C13").map_or(0, |p| p.evals) % 97 == 1 {
        st.sample("C13", || json!({"instantiate": msg, "oracle": v.class(), "observed": out.tag()}), 4);
    }
    if out.is_ok() && !v.exact_ok {
        viol(viols, "C13", "instantiate", &format!("incoherent configuration accepted: {}", v.reason), format!("{}", msg));
    }
    if !out.is_ok() && v.exact_ok && v.in_domain {
        viol(viols, "C13", "instantiate", "coherent configuration refused", format!("{} -> {:?}", msg, out));
    }
    if out.is_ok() {
        let stored = post.item_raw("contract_info");
        let exp = instantiate_expected_cfg(msg);
        if !stored.as_ref().map_or(false, |s| crate::mon::json_covers(s, &exp)) {
            viol(viols, "C13", "instantiate-record", "stored configuration differs from the request", format!("expected {} stored {:?}", exp, stored));
        }
        let (name, version) = crate::migrate::package_identity();
        let ver = read_version(post);
        if ver != Some((name.clone(), version.clone())) {
            viol(viols, "C13", "instantiate-record", "version record differs from the package name and version", format!("expected ({}, {}) stored {:?}", name, version, ver));
        }
        let extra = other_keys(post);
        if !extra.is_empty() || !Book::read(post).is_empty() && Book::read(pre).is_empty() {
            viol(viols, "C13", "instantiate-record", "instantiate wrote something besides the two records", format!("{:?}", extra));
        }
        if !ledger_delta(pre, post).is_empty() {
            viol(viols, "C13", "instantiate-record", "instantiate moved funds", format!("{:?}", ledger_delta(pre, post)));
        }
    } else if pre.store != post.store {
        viol(viols, "C13", "instantiate", "refused instantiate changed storage", String::new());
    }
}

// ------------------------------------------------------------------------------------------------
/// one random history under a regime
pub fn run_random(seed: u64, rg: &Regime, opts: &Opts, st: &mut Stats) -> History {
    let mut r = Rng::new(seed);
    let mut hist = History::new(&format!("{}#{}", rg.name, seed), seed);
    let cfg = gen_cfg(&mut r, rg);
    for op in setup_ops(&mut r, &cfg) {
        let o = hist.step(op, opts, st);
        if !o.is_ok() {
            st.g("setup_failed");
            hist.finish(opts, st);
            return hist;
        }
    }
    let steps = r.range(rg.steps.0, rg.steps.1);
    let mut g = GenState { next_id: 0, id_base: (seed % 1_000_000) * 10_000 };
    let mut last: Option<Op> = None;
    for i in 0..steps {
        if hist.stopped {
            break;
        }
        if let Some(at) = rg.legacy_at {
            if i == at {
                for op in legacy_rekey_ops(&hist.w, &mut r) {
                    hist.step(op, opts, st);
                }
            }
        }
        if r.chance(rg.chain_change_pct) {
            let op = gen_chain_change(&mut r, &hist.w, &cfg.pool);
            hist.step(op, opts, st);
            continue;
        }
        // now and then the request just made is sent once more, unchanged
        if let Some(l) = &last {
            if r.chance(4) {
                hist.step(l.clone(), opts, st);
                continue;
            }
        }
        let mut op = gen_step(&mut r, rg, &hist.w, &mut g);
        if r.chance(rg.hostile_pct) {
            mutate(&mut r, &hist.w, &mut op);
            st.g("hostile_mutations");
        }
        last = Some(op.clone());
        hist.step(op, opts, st);
    }
    hist.finish(opts, st);
    hist
}

/// W3d: re-key a random subset of the open orders under legacy un-hyphenated ids, as a book carried
/// over from an earlier contract version would hold them (key and id field both un-hyphenated)
pub fn legacy_rekey_ops(w: &World, r: &mut Rng) -> Vec<Op> {
    let mut ops = vec![];
    for ns in ["ask", "bid"] {
        for (id, raw) in w.scan_raw(ns) {
            if !canon_uuid(&id) || !r.chance(60) {
                continue;
            }
            // earlier versions stored whatever spelling the sender used: no hyphens, and any letter case
            let simple = id.replace('-', "");
            let new_id = match r.below(10) {
                0..=4 => simple,
                5 | 6 => simple.to_uppercase(),
                7 => simple.chars().enumerate().map(|(i, c)| if i % 2 == 0 { c.to_ascii_uppercase() } else { c }).collect(),
                8 => id.to_uppercase(),
                _ => format!("{}{}", &simple[..16].to_uppercase(), &simple[16..]),
            };
            if new_id == id {
                continue;
            }
            if let Ok(mut v) = serde_json::from_slice::<Value>(&raw) {
                v["id"] = json!(new_id);
                // keep the contract's field order: re-serialise through the raw text
                let mut text = String::from_utf8_lossy(&raw).replace(&format!("\"id\":\"{}\"", id), &format!("\"id\":\"{}\"", new_id));
                // earlier releases also stored the price exactly as it was sent, e.g. padded with zeros beyond
                // what a 96-bit decimal spells (same value)
                if r.chance(20) {
                    if let Some(p) = v["price"].as_str() {
                        let (i, f) = p.split_once('.').unwrap_or((p, ""));
                        if f.len() < 30 && !i.is_empty() && i.bytes().all(|b| b.is_ascii_digit()) && f.bytes().all(|b| b.is_ascii_digit()) {
                            let long = format!("{}.{}{}", i, f, "0".repeat(30 - f.len()));
                            text = text.replace(&format!("\"price\":\"{}\"", p), &format!("\"price\":\"{}\"", long));
                        }
                    }
                }
                let _ = v;
                ops.push(Op::PutRaw { key: map_key(ns, &id), value: None });
                ops.push(Op::PutRaw { key: map_key(ns, &new_id), value: Some(text.into_bytes()) });
            }
        }
    }
    ops
}
