// W4: finite spaces enumerated completely through the real code.
use crate::engine::*;
use crate::gen::uuid;
use crate::migrate::*;
use crate::probes::run_probe;
use crate::scenarios::*;
use crate::sim::*;
use crate::stats::*;
use crate::view::Book;
use serde_json::{json, Value};

fn fork(h: &History, label: &str) -> History {
    History { label: label.to_string(), w: h.w.clone(), h: h.h.clone(), ops: h.ops.clone(), outcomes: h.outcomes.clone(), found: vec![], stopped: false, probe_rng: h.probe_rng.clone() }
}

/// C10: every assignment {none, coin, restricted}^(base, conv0, q0) x a scenario touching every
/// fund-moving path (create ask/bid, approve, match plain + convertible at both prices with both
/// fees, fee refund, partial reject of each side, cancel, expire).
pub fn marker_matrix(opts: &Opts, st: &mut Stats) -> Vec<(History, Vec<String>)> {
    let kinds = [MarkerKind::NoMarker, MarkerKind::Coin, MarkerKind::Restricted];
    // the same again with marker answers whose OTHER fields are unusual (status, required attributes,
    // supply, forced transfer ...): the mechanism depends on the marker type alone
    let kinds2 = [MarkerKind::RestrictedGated, MarkerKind::CoinOdd, MarkerKind::RestrictedFinalized];
    let mut combos = vec![];
    for ks in [kinds, kinds2] {
        for mb in ks {
            for mc in ks {
                for mq in ks {
                    combos.push((mb, mc, mq));
                }
            }
        }
    }
    let mut out = vec![];
    {
        {
            for (mb, mc, mq) in combos {
                let mut s = Script::new(&format!("W4:markers:{}{}{}", mb.short(), mc.short(), mq.short()), opts, st);
                s.market(&Market { ask_fee: Some(("feea", "0.1")), bid_fee: Some(("feeb", "0.05")), markers: vec![("base", mb), ("conv0", mc), ("q0", mq)], ..Default::default() });
                s.ask(1, "alice", "conv0", "20", 10);
                s.approve(1, "appr1", 10);
                s.bid(2, "bobby", "25", 8);
                s.mtch(1, 2, "20", 3, true);
                s.mtch(1, 2, "25", 1, true);
                s.simple("reject_bid", "exec1", 2, Some(1), true);
                s.simple("reject_ask", "exec1", 1, Some(2), true);
                s.ask(3, "carol", "base", "25", 4);
                s.mtch(3, 2, "25", 1, true);
                s.ask(4, "dave", "base", "5", 2);
                s.mtch(4, 2, "5", 1, true);
                s.simple("expire_bid", "exec1", 2, None, true);
                s.simple("cancel_ask", "alice", 1, None, true);
                s.simple("expire_ask", "exec1", 3, None, true);
                s.simple("cancel_ask", "dave", 4, None, true);
                s.bid(5, "bobby", "1", 1);
                s.simple("cancel_bid", "bobby", 5, None, true);
                s.st.count("C10", "marker_assignments_enumerated");
                out.push(s.done());
            }
        }
    }
    out
}

fn base_inst() -> Value {
    json!({
        "name": "ats", "base_denom": "base", "convertible_base_denoms": ["conv0"], "supported_quote_denoms": ["q0"],
        "approvers": ["appr1"], "executors": ["exec1"],
        "ask_fee_rate": null, "ask_fee_account": null, "bid_fee_rate": null, "bid_fee_account": null,
        "ask_required_attributes": [], "bid_required_attributes": [],
        "price_precision": "0", "size_increment": "1",
    })
}

/// C13: precision 0..20 x increments around each power of ten x fee-pair forms x field defects
pub fn instantiate_matrix(opts: &Opts, st: &mut Stats, thorough: bool) -> Vec<History> {
    let mut found = vec![];
    let ask_forms: Vec<(Value, Value)> = vec![
        (Value::Null, Value::Null),
        (json!(""), json!("")),
        (json!("0.01"), json!("feea")),
        (json!("0.01"), Value::Null),
        (Value::Null, json!("feea")),
        (json!("abc"), json!("feea")),
        (json!("0.01"), json!("FEEA")),
        (json!("0.01"), json!("")),
        (json!(""), json!("feea")),
        (json!("1"), json!("feea")),
        (json!("0"), json!("feea")),
        (json!("1e-2"), json!("feea")),
        (json!("0.01"), json!("ab")),
        (json!("-0.01"), json!("feea")),
        (json!(".5"), json!("feea")),
        // long spellings of a value a 96-bit decimal holds exactly (zeros only beyond what fits)
        (json!("0.002500000000000000000000000000"), json!("feea")),
        (json!("8.0000000000000000000000000000"), json!("feea")),
        (json!("0.0100000000000000000000000000"), json!("feea")),
        // blank but not empty: neither "no fee" nor a fee
        (json!(" "), json!(" ")),
        (json!("\t"), json!("")),
        (json!(""), json!("  ")),
        (json!(" 0.01"), json!("feea")),
        (json!("0.01 "), json!("feea")),
    ];
    let bid_forms: Vec<(Value, Value)> = vec![(Value::Null, Value::Null), (json!("0.02"), json!("feeb")), (json!("0.02"), Value::Null), (json!(""), json!("")), (Value::Null, json!("feeb")), (json!("abc"), json!("feeb")), (json!(" "), json!(" ")), (json!(""), json!(" ")), (json!("\n"), json!("\n")), (json!("0.020000000000000000000000000000"), json!("feeb"))];
    let defects: Vec<(&str, Value)> = vec![
        ("none", Value::Null),
        ("name", json!("")),
        ("base_denom", json!("")),
        ("supported_quote_denoms", json!([])),
        ("executors", json!([])),
        ("approvers", json!([])),
        ("executors", json!(["EXEC"])),
        ("approvers", json!(["ok1", "x"])),
        ("executors", json!(["exec1", "appr1"])),
        ("approvers", json!(["appr1", "appr1", "exec1"])),
        // lists that are not empty as lists but hold blank or padded entries
        ("executors", json!([""])),
        ("approvers", json!(["", " "])),
        ("executors", json!(["exec1", ""])),
        ("approvers", json!(["appr1", "   "])),
        ("executors", json!(["Exec1"])),
        ("supported_quote_denoms", json!(["q0", "q0", "q1"])),
        ("convertible_base_denoms", json!(["conv0", "base", "conv0"])),
    ];
    let mut precs: Vec<u128> = if thorough { (0..=20).collect() } else { vec![0, 1, 2, 6, 17, 18, 19, 20] };
    // integer-narrowing classes: values whose low 8 / 16 / 32 / 64 bits look like a legal precision
    for base in [1u128 << 8, 1u128 << 16, 1u128 << 32, 1u128 << 64] {
        for low in [0u128, 2, 18] {
            precs.push(base + low);
        }
    }
    precs.extend([38, 39, 255, u32::MAX as u128, u64::MAX as u128, u128::MAX]);
    for p in precs {
        let mut incs: Vec<String> = vec!["0".into(), "1".into(), "7".into()];
        if p <= 30 {
            let t = 10u128.pow(p.min(30) as u32);
            for v in [t.saturating_sub(1), t, t + 1, t * 2, t * 10, t * 25, t / 10, t * 10 + t / 10] {
                incs.push(v.to_string());
            }
        } else {
            // increments that would be legal for the precision's low bits
            for bits in [8u32, 16, 32, 64] {
                let low = p & ((1u128 << bits) - 1);
                if low <= 30 {
                    incs.push(10u128.pow(low as u32).to_string());
                    incs.push((10u128.pow(low as u32) * 3).to_string());
                }
            }
        }
        incs.sort();
        incs.dedup();
        for inc in &incs {
            for (ai, af) in ask_forms.iter().enumerate() {
                for (bi, bf) in bid_forms.iter().enumerate() {
                    for (di, (field, val)) in defects.iter().enumerate() {
                        // keep the product tractable in the quick tier: vary one axis at a time off the diagonal
                        if !thorough && ai > 0 && bi > 0 && di > 0 {
                            continue;
                        }
                        if !thorough && (ai + bi + di) % 3 != 0 && ai > 2 && di > 0 {
                            continue;
                        }
                        let mut m = base_inst();
                        m["price_precision"] = json!(p.to_string());
                        m["size_increment"] = json!(inc);
                        m["ask_fee_rate"] = af.0.clone();
                        m["ask_fee_account"] = af.1.clone();
                        m["bid_fee_rate"] = bf.0.clone();
                        m["bid_fee_account"] = bf.1.clone();
                        if *field != "none" {
                            m[*field] = val.clone();
                        }
                        let mut h = History::new(&format!("W4:inst:p{}:i{}:a{}:b{}:d{}", p, inc, ai, bi, di), 1);
                        h.step(Op::Inst { msg: m }, opts, st);
                        st.count("C13", "matrix_instantiations");
                        if !h.found.is_empty() {
                            found.push(h);
                        }
                    }
                }
            }
        }
    }
    // missing-field subsets: a required field absent from the JSON altogether
    for k in ["name", "base_denom", "convertible_base_denoms", "supported_quote_denoms", "approvers", "executors", "ask_required_attributes", "bid_required_attributes", "price_precision", "size_increment"] {
        let mut m = base_inst();
        m.as_object_mut().unwrap().remove(k);
        let mut h = History::new(&format!("W4:inst:missing:{}", k), 1);
        h.step(Op::Inst { msg: m }, opts, st);
        if !h.found.is_empty() {
            found.push(h);
        }
    }
    found
}

/// C13 integrality consequence: for each accepted (precision, increment), admissible prices and
/// sizes are admitted as ask and bid, matched in full and in part at lot sizes, and returned.
pub fn integrality_sweep(opts: &Opts, st: &mut Stats, thorough: bool) -> Vec<(History, Vec<String>)> {
    let mut out = vec![];
    let precs: Vec<u32> = if thorough { (0..=18).collect() } else { vec![0, 1, 2, 3, 6, 9, 12, 18] };
    for p in precs {
        for k in [1u128, 3, 10] {
            let inc = k * 10u128.pow(p);
            // prices with exactly p decimals, mantissas not divisible by 10
            for mant in [1u128, 7, 123, 999_983] {
                if p > 12 && mant > 123 {
                    continue;
                }
                let price = if p == 0 { mant.to_string() } else { format!("{}.{:0width$}", mant / 10u128.pow(p), mant % 10u128.pow(p), width = p as usize) };
                let mut s = Script::new(&format!("W4:integrality:p{}:k{}:m{}", p, k, mant), opts, st);
                s.market(&Market { prec: p, inc, bid_fee: Some(("feeb", "0.01")), ask_fee: Some(("feea", "0.02")), ..Default::default() });
                s.ask(1, "alice", "base", &price, inc * 4);
                s.bid(2, "bobby", &price, inc * 2);
                s.mtch(1, 2, &price, inc, true);
                s.simple("reject_bid", "exec1", 2, Some(inc), true);
                s.bid(3, "carol", &price, inc * 2);
                s.mtch(1, 3, &price, inc * 2, true);
                s.simple("reject_ask", "exec1", 1, None, true);
                s.st.count("C13", "integrality_scenarios");
                out.push(s.done());
            }
        }
    }
    out
}

/// C12: presence mask of the eight ModifyContract fields x book state x value forms
pub fn modify_matrix(opts: &Opts, st: &mut Stats, thorough: bool) -> Vec<History> {
    let mut found = vec![];
    for fees in [true, false] {
        for state in 0..4 {
            let mut st0 = Stats::default();
            let mut s = Script::new(&format!("W4:modify:fees{}:state{}", fees, state), opts, &mut st0);
            s.market(&Market { ask_fee: if fees { Some(("feea", "0.01")) } else { None }, bid_fee: if fees { Some(("feeb", "0.02")) } else { None }, approvers: vec!["appr1", "carol"], ..Default::default() });
            if state & 1 != 0 {
                s.ask(1, "alice", "base", "10", 10);
            }
            if state & 2 != 0 {
                s.bid(2, "bobby", "10", 10);
            }
            let (base, _) = s.done();
            st.merge(st0);
            let forms: Vec<[Value; 8]> = vec![
                [json!(["appr1", "carol", "dave"]), json!(["exec1", "dave"]), json!("0.010"), json!("feeb"), json!("0.02"), json!("feea"), json!(["kyc"]), json!(["acc"])],
                [json!(["carol"]), json!(["dave"]), json!("0.5"), json!("feea"), json!("0.5"), json!("feeb"), json!([]), json!([])],
                [json!([]), json!([]), json!(""), json!(""), json!(""), json!(""), json!(["a", "b"]), json!(["c"])],
                // rates that differ from the stored ones only beyond their last written decimal
                [json!(["appr1", "carol"]), json!(["exec1"]), json!("0.014"), json!("feea"), json!("0.0249"), json!("feeb"), json!([]), json!([])],
                // cross combinations: one list empty while the other is supplied non-empty; duplicated entries
                [json!([]), json!(["exec1", "dave"]), json!("0.01"), json!("feeb"), json!("0.020"), json!("feeb"), json!([]), json!([])],
                [json!(["appr1", "appr1", "carol", "carol"]), json!([]), json!("0.01"), json!(""), json!(""), json!("feea"), json!(["kyc", "kyc"]), json!(["acc"])],
                // lists that are not empty as lists but hold only blank entries / a blank entry among real ones
                [json!([""]), json!([" "]), json!("0.01"), json!("feea"), json!("0.02"), json!("feeb"), json!([]), json!([])],
                [json!(["appr1", "carol", ""]), json!(["exec1", " "]), json!("0.01"), json!("feea"), json!("0.02"), json!("feeb"), json!([""]), json!([" "])],
                [json!(["", " "]), json!(["", ""]), json!("0.01"), json!("feea"), json!("0.02"), json!("feeb"), json!([]), json!([])],
            ];
            let names = ["approvers", "executors", "ask_fee_rate", "ask_fee_account", "bid_fee_rate", "bid_fee_account", "ask_required_attributes", "bid_required_attributes"];
            for mask in 0u32..256 {
                for (fi, f) in forms.iter().enumerate() {
                    if !thorough && fi >= 2 && mask % 4 == 1 {
                        continue;
                    }
                    let mut m = serde_json::Map::new();
                    for b in 0..8 {
                        if mask & (1 << b) != 0 {
                            m.insert(names[b].into(), f[b].clone());
                        }
                    }
                    for sender in ["exec1", "alice"] {
                        if sender == "alice" && mask % 16 != 1 {
                            continue;
                        }
                        let mut viols = vec![];
                        let op = Op::Exec { sender: sender.into(), funds: vec![], msg: json!({"modify_contract": Value::Object(m.clone())}) };
                        let o = run_probe(&base.w, &base.h, &op, st, &mut viols);
                        st.count("C12", "matrix_requests");
                        st.count("C12", if o.is_ok() { "matrix_accepted" } else if matches!(o, Outcome::Trap(_)) { "matrix_traps" } else { "matrix_refused" });
                        st.eval("C12", format!("matrix|{:08b}|state{}|form{}|{}", mask, state, fi, o.tag()));
                        if !viols.is_empty() {
                            let mut h = fork(&base, &format!("{}:mask{}:form{}", base.label, mask, fi));
                            h.ops.push(op.clone());
                            h.outcomes.push(o.tag().into());
                            let idx = h.ops.len() - 1;
                            for v in viols {
                                h.found.push(Found { viol: v, step: idx });
                            }
                            found.push(h);
                        }
                    }
                }
            }
        }
    }
    found
}

/// C14: stored version strings x override forms, on a small real book
pub fn version_matrix(opts: &Opts, st: &mut Stats) -> Vec<History> {
    let mut found = vec![];
    let mut st0 = Stats::default();
    let mut s = Script::new("W4:versions", opts, &mut st0);
    s.market(&Market { ask_fee: Some(("feea", "0.01")), bid_fee: Some(("feeb", "0.02")), ..Default::default() });
    s.ask(1, "alice", "base", "10", 10);
    s.ask(2, "carol", "conv0", "11", 5);
    s.approve(2, "appr1", 5);
    s.bid(3, "bobby", "10", 10);
    s.mtch(1, 3, "10", 4, true);
    s.simple("reject_bid", "exec1", 3, Some(2), true);
    s.bid(4, "dave", "9", 3);
    let (mut base, _) = s.done();
    st.merge(st0);
    // one bid in the old format (events derived from what really happened to bid 3)
    let b3 = crate::view::Book::read(&base.w).bids.get(&uuid(3)).cloned();
    if let Some(b) = b3 {
        let blk = json!({"height": 1, "time": "1571797419879305533"});
        let ev = json!([
            {"action": {"Fill": {"base": {"amount": "4", "denom": "base"}, "fee": {"amount": "1", "denom": "q0"}, "price": "10", "quote": {"amount": "40", "denom": "q0"}}}, "block_info": blk},
            {"action": {"Reject": {"base": {"amount": "2", "denom": "base"}, "fee": if b.acc_fee > 1 { json!({"amount": (b.acc_fee - 1).to_string(), "denom": "q0"}) } else { Value::Null }, "quote": {"amount": "20", "denom": "q0"}}}, "block_info": blk},
        ]);
        let v2 = json!({"base": b.raw["base"], "events": ev, "fee": b.raw["fee"], "id": b.raw["id"], "owner": b.raw["owner"], "price": b.raw["price"], "quote": b.raw["quote"]});
        base.step(Op::PutRaw { key: map_key("bid", &uuid(3)), value: Some(serde_json::to_vec(&v2).unwrap()) }, opts, st);
    }
    // override forms: full product of {absent, present} approvers x {absent, empty, valid} fee pairs x
    // {absent, present} attribute lists, plus the invalid forms
    let mut msgs: Vec<Value> = vec![];
    for ap in [None, Some(json!(["appr1", "dave"]))] {
        for af in [None, Some(("", "")), Some(("0.03", "feeb")), Some(("0.010", "feeb"))] {
            for bf in [None, Some(("", "")), Some(("0.04", "feea")), Some(("0.02", "carol"))] {
                for at in [None, Some((json!(["kyc"]), json!([])))] {
                    let mut o = serde_json::Map::new();
                    if let Some(a) = &ap {
                        o.insert("approvers".into(), a.clone());
                    }
                    if let Some((r, a)) = af {
                        o.insert("ask_fee_rate".into(), json!(r));
                        o.insert("ask_fee_account".into(), json!(a));
                    }
                    if let Some((r, a)) = bf {
                        o.insert("bid_fee_rate".into(), json!(r));
                        o.insert("bid_fee_account".into(), json!(a));
                    }
                    if let Some((x, y)) = &at {
                        o.insert("ask_required_attributes".into(), x.clone());
                        o.insert("bid_required_attributes".into(), y.clone());
                    }
                    msgs.push(Value::Object(o));
                }
            }
        }
    }
    msgs.extend(vec![
        // a rate padded out to 30 fractional digits: a parseable rate (its value is held exactly)
        json!({"ask_fee_rate": "0.030000000000000000000000000000", "ask_fee_account": "feeb"}),
        json!({"bid_fee_rate": "0.002500000000000000000000000000", "bid_fee_account": "carol", "approvers": ["appr1"]}),
        json!({"approvers": []}),
        json!({"approvers": [""]}),
        json!({"approvers": [" ", ""]}),
        json!({"approvers": ["appr1", ""]}),
        json!({"ask_fee_rate": "0.03"}),
        json!({"bid_fee_account": "feea"}),
        json!({"bid_fee_rate": "zz", "bid_fee_account": "feea"}),
        json!({"ask_fee_rate": "0.1", "ask_fee_account": "BAD"}),
        json!({"approvers": ["NOTVALID"]}),
        json!({"ask_required_attributes": ["kyc"]}),
        json!({"bid_required_attributes": ["acc", "kyc"]}),
    ]);
    let all: Vec<&str> = VERSIONS_IN_WINDOW.iter().chain(VERSIONS_AFTER).chain(VERSIONS_OLD).chain(VERSIONS_BAD).chain(VERSIONS_GRAY).cloned().collect();
    for v in &all {
        for (mi, m) in msgs.iter().enumerate() {
            let mut h = fork(&base, &format!("W4:versions:{}:msg{}", v, mi));
            h.step(version_op(v), opts, st);
            h.step(Op::Migrate { msg: m.clone() }, opts, st);
            st.count("C14", "matrix_migrations");
            if !h.found.is_empty() {
                found.push(h);
            }
        }
    }
    // the same gates on a book without bids and on an empty book (a gate must not depend on what the
    // book holds); plain message and one override
    for (label, with_ask) in [("asks-only", true), ("empty-book", false)] {
        let mut st1 = Stats::default();
        let mut s = Script::new(&format!("W4:versions:{}", label), opts, &mut st1);
        s.market(&Market { ask_fee: Some(("feea", "0.01")), bid_fee: Some(("feeb", "0.02")), ..Default::default() });
        if with_ask {
            s.ask(1, "alice", "base", "10", 10);
            s.ask(2, "carol", "conv0", "11", 5);
        }
        let (b2, _) = s.done();
        st.merge(st1);
        for v in &all {
            for m in [json!({}), json!({"approvers": ["appr1", "dave"]})] {
                let mut h = fork(&b2, &format!("W4:versions:{}:{}", label, v));
                h.step(version_op(v), opts, st);
                h.step(Op::Migrate { msg: m }, opts, st);
                st.count("C14", "matrix_migrations");
                if !h.found.is_empty() {
                    found.push(h);
                }
            }
        }
    }
    // a large book of old-format bids (conversion must not depend on the book's size)
    for (n, v) in [(101usize, "0.18.2"), (257, "0.16.2"), (150, "0.19.1")] {
        let mut h = fork(&base, &format!("W4:versions:large-book:{}:{}", n, v));
        for i in 0..n {
            let id = uuid(5000 + i as u64);
            let fee = if i % 3 == 0 { Value::Null } else { json!({"amount": "9", "denom": "q0"}) };
            let blk = json!({"height": 7, "time": "1571797419879305533"});
            let ev = json!([
                {"action": {"Fill": {"base": {"amount": "1", "denom": "base"}, "fee": if i % 3 == 0 { Value::Null } else { json!({"amount": "1", "denom": "q0"}) }, "price": "10", "quote": {"amount": "10", "denom": "q0"}}}, "block_info": blk},
                {"action": {"Refund": {"fee": Value::Null, "quote": {"amount": (i % 4).to_string(), "denom": "q0"}}}, "block_info": blk},
            ]);
            let v2 = json!({"base": {"amount": "9", "denom": "base"}, "events": ev, "fee": fee, "id": id, "owner": "bobby", "price": "10", "quote": {"amount": "90", "denom": "q0"}});
            h.w.store.data.insert(map_key("bid", &id), serde_json::to_vec(&v2).unwrap());
        }
        h.step(version_op(v), opts, st);
        h.step(Op::Migrate { msg: json!({}) }, opts, st);
        st.count("C15", "large_book_migrations");
        if !h.found.is_empty() {
            found.push(h);
        }
    }
    // large MIXED books: long runs of current-format bids between (and before / after) old-format ones
    // (conversion must not depend on where in key order the old-format bids sit)
    let layouts: Vec<(&str, usize, Box<dyn Fn(usize) -> bool>)> = vec![
        ("3old-120cur-1old", 124, Box::new(|i| i < 3 || i == 123)),
        ("100cur-30old", 130, Box::new(|i| i >= 100)),
        ("old-every-33rd", 200, Box::new(|i| i % 33 == 32)),
        ("blocks-of-32", 200, Box::new(|i| (i / 32) % 2 == 1)),
        ("64cur-1old-64cur-1old", 130, Box::new(|i| i == 64 || i == 129)),
        ("1old-256cur-1old", 258, Box::new(|i| i == 0 || i == 257)),
        ("300cur-1old", 301, Box::new(|i| i == 300)),
    ];
    for (name, n, is_old) in layouts.iter() {
        for v in ["0.19.0", "0.16.2"] {
            let mut h = fork(&base, &format!("W4:versions:mixed-book:{}:{}", name, v));
            for i in 0..*n {
                let id = uuid(7000 + i as u64);
                let fee = if i % 3 == 0 { Value::Null } else { json!({"amount": "9", "denom": "q0"}) };
                let blk = json!({"height": 7, "time": "1571797419879305533"});
                // every other bid spells its price as earlier releases stored it: more digits than a 96-bit
                // decimal spells, same value
                let price = if i % 2 == 1 { "10.0000000000000000000000000000" } else { "10" };
                let rec = if is_old(i) {
                    let one = json!({"action": {"Fill": {"base": {"amount": "1", "denom": "base"}, "fee": if i % 3 == 0 { Value::Null } else { json!({"amount": "1", "denom": "q0"}) }, "price": "10", "quote": {"amount": "10", "denom": "q0"}}}, "block_info": blk});
                    // two equal fills in one block: identical consecutive entries
                    json!({"base": {"amount": "9", "denom": "base"}, "events": [one.clone(), one], "fee": fee, "id": id, "owner": "bobby", "price": price, "quote": {"amount": "90", "denom": "q0"}})
                } else {
                    json!({"base": {"amount": "9", "denom": "base"}, "accumulated_base": "2", "accumulated_quote": "20", "accumulated_fee": if i % 3 == 0 { "0" } else { "2" }, "fee": fee, "id": id, "owner": "carol", "price": price, "quote": {"amount": "90", "denom": "q0"}})
                };
                h.w.store.data.insert(map_key("bid", &id), serde_json::to_vec(&rec).unwrap());
                // the contract holds what these bids are still owed (unspent quote 70 + unspent fee 7)
                *h.w.ledger.entry((CONTRACT.to_string(), "q0".to_string())).or_insert(0) += 70 + if i % 3 == 0 { 0 } else { 7 };
            }
            h.step(version_op(v), opts, st);
            h.step(Op::Migrate { msg: json!({}) }, opts, st);
            // every bid can now be read and exits with the same payout (old-format and native twins alike)
            let book = Book::read(&h.w);
            st.count("C15", "mixed_large_book_migrations");
            if book.odd_bids.is_empty() {
                for i in [0usize, 1, *n / 2, *n - 2, *n - 1] {
                    let id = uuid(7000 + i as u64);
                    h.step(Op::Exec { sender: if is_old(i) { "bobby".into() } else { "carol".into() }, funds: vec![], msg: json!({"cancel_bid": {"id": id}}) }, opts, st);
                }
            }
            if !h.found.is_empty() {
                found.push(h);
            }
        }
    }
    // no version record at all
    {
        let mut h = fork(&base, "W4:versions:absent");
        h.step(Op::PutRaw { key: b"version_info".to_vec(), value: None }, opts, st);
        h.step(Op::Migrate { msg: json!({}) }, opts, st);
        if !h.found.is_empty() {
            found.push(h);
        }
    }
    found
}
