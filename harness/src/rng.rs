// SplitMix64: the only source of randomness; every run is a pure function of (tree, tier, VERIF_SEED)
#[derive(Clone, Debug)]
pub struct Rng(pub u64);

impl Rng {
    pub fn new(seed: u64) -> Self {
        Rng(seed ^ 0x5DEECE66D)
    }
    pub fn next(&mut self) -> u64 {
        self.0 = self.0.wrapping_add(0x9E3779B97F4A7C15);
        let mut z = self.0;
        z = (z ^ (z >> 30)).wrapping_mul(0xBF58476D1CE4E5B9);
        z = (z ^ (z >> 27)).wrapping_mul(0x94D049BB133111EB);
        z ^ (z >> 31)
    }
    pub fn below(&mut self, n: u64) -> u64 {
        if n == 0 {
            0
        } else {
            self.next() % n
        }
    }
    pub fn below128(&mut self, n: u128) -> u128 {
        if n == 0 {
            return 0;
        }
        let v = ((self.next() as u128) << 64) | self.next() as u128;
        v % n
    }
    pub fn range(&mut self, lo: u64, hi_incl: u64) -> u64 {
        lo + self.below(hi_incl - lo + 1)
    }
    pub fn pick<'a, T>(&mut self, v: &'a [T]) -> &'a T {
        &v[self.below(v.len() as u64) as usize]
    }
    pub fn pick_s(&mut self, v: &[&'static str]) -> &'static str {
        v[self.below(v.len() as u64) as usize]
    }
    pub fn chance(&mut self, pct: u64) -> bool {
        self.below(100) < pct
    }
    pub fn fork(&mut self) -> Rng {
        Rng(self.next())
    }
}
