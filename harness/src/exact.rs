// Exact arithmetic for the oracles: scaled decimals with wide integers (never rust_decimal, which is
// what the contract under test computes with).
use crate::big::Big;
use std::cmp::Ordering;

pub type W = Big;

pub fn w(n: u128) -> W {
    Big::from_u128(n)
}
pub fn wi(n: u128) -> W {
    Big::from_u128(n)
}
pub fn pow10(e: u32) -> W {
    let mut r = w(1);
    let ten = w(10);
    for _ in 0..e {
        r = r * ten;
    }
    r
}
pub fn to_u128(x: W) -> Option<u128> {
    x.to_u128()
}

/// How a decimal string is classified for the purpose of judging accept/refuse.
#[derive(Clone, Copy, Debug, PartialEq, Eq)]
pub enum Form {
    /// digits with optional fraction that a 96-bit / 28-place decimal holds exactly AS SPELLED (at most
    /// 28 fractional digits, mantissa below 2^96): judged both ways
    Plain,
    /// a longer spelling whose VALUE such a decimal still holds exactly (only zeros beyond what fits,
    /// e.g. `0.002500000000000000000000000000`): a rate spelled like this is a parseable rate; everything
    /// else about it is judged like `Gray`
    Padded,
    /// forms rust_decimal may or may not accept (`+1`, `.5`, `1.`, `1_0`, > 28 digits): only
    /// "accepted => conditions hold exactly" is judged
    Gray,
}

/// value = mant / 10^scale (non-negative)
#[derive(Clone, Debug, PartialEq, Eq)]
pub struct Dec {
    pub mant: Big,
    pub scale: u32,
    pub form: Form,
}

/// Parse a non-negative decimal string exactly. None = malformed (or negative): must be refused
/// wherever a positive decimal is required.
pub fn parse_dec(s: &str) -> Option<Dec> {
    let mut gray = false;
    let mut t = s;
    if let Some(r) = t.strip_prefix('+') {
        gray = true;
        t = r;
    }
    if t.contains('_') {
        gray = true;
    }
    let cleaned: String = t.chars().filter(|c| *c != '_').collect();
    let (i, f) = match cleaned.split_once('.') {
        Some((i, f)) => (i.to_string(), f.to_string()),
        None => (cleaned.clone(), String::new()),
    };
    if cleaned.contains('.') && (i.is_empty() || f.is_empty()) {
        gray = true;
    }
    if i.is_empty() && f.is_empty() {
        return None;
    }
    if !i.bytes().all(|b| b.is_ascii_digit()) || !f.bytes().all(|b| b.is_ascii_digit()) {
        return None;
    }
    if t.starts_with('_') {
        return None;
    }
    let digits = format!("{}{}", i, f);
    let sig = digits.trim_start_matches('0');
    if sig.len() > 70 || f.len() > 60 {
        return None; // absurdly long: nothing can hold it; must be refused
    }
    let mant = if sig.is_empty() { Big::ZERO } else { Big::parse_dec(sig)? };
    let fits = |m: &Big| *m < pow2_96();
    let mut form = Form::Plain;
    if !(f.len() <= 28 && fits(&mant)) {
        // does the value fit once the zeros at the end of the fraction are dropped?
        let f2 = f.trim_end_matches('0');
        let d2 = format!("{}{}", i, f2);
        let s2 = d2.trim_start_matches('0');
        let m2 = if s2.is_empty() { Big::ZERO } else { Big::parse_dec(s2)? };
        form = if f2.len() <= 28 && fits(&m2) { Form::Padded } else { Form::Gray };
    }
    if gray {
        form = Form::Gray;
    }
    Some(Dec { mant, scale: f.len() as u32, form })
}

fn pow2_96() -> Big {
    let mut r = Big::from_u128(1);
    for _ in 0..96 {
        r = r * Big::from_u128(2);
    }
    r
}

impl Dec {
    pub fn is_zero(&self) -> bool {
        self.mant.is_zero()
    }
    pub fn mantw(&self) -> W {
        self.mant
    }
    /// self * n when that is an integer
    pub fn mul_int(&self, n: u128) -> Option<u128> {
        let p = self.mantw() * w(n);
        let d = pow10(self.scale);
        if (p % d).is_zero() {
            to_u128(p / d)
        } else {
            None
        }
    }
    pub fn cmp_val(&self, o: &Dec) -> Ordering {
        let s = self.scale.max(o.scale);
        (self.mantw() * pow10(s - self.scale)).cmp(&(o.mantw() * pow10(s - o.scale)))
    }
    pub fn eq_val(&self, o: &Dec) -> bool {
        self.cmp_val(o) == Ordering::Equal
    }
    /// at most `prec` fractional digits, numerically
    pub fn within_precision(&self, prec: u32) -> bool {
        if self.scale <= prec {
            return true;
        }
        (self.mantw() % pow10(self.scale - prec)).is_zero()
    }
    /// mantissa * n as a wide integer (for domain tests)
    pub fn mant_times(&self, n: u128) -> W {
        // zeros at the end of the fraction carry no information: "2.500" x n is as exact as "2.5" x n
        let mut m = self.mantw();
        let mut s = self.scale;
        let ten = w(10);
        while s > 0 && !m.is_zero() && (m % ten).is_zero() {
            m = m / ten;
            s -= 1;
        }
        m * w(n)
    }
    /// round-half-away-from-zero of self * amount
    pub fn fee_of(&self, amount: u128) -> Option<u128> {
        let d = pow10(self.scale);
        let p = self.mantw() * w(amount);
        let two = w(2);
        to_u128((two * p + d) / (two * d))
    }
}

/// 2^95: below this, rust_decimal products of the operands are exact (no rescaling)
pub fn domain_limit() -> W {
    let mut r = w(1);
    for _ in 0..95 {
        r = r * w(2);
    }
    r
}

/// nearest unit (half up) of f*r/q, and whether the exact value is a half-unit tie
pub fn prorata(f: u128, r: u128, q: u128) -> (u128, bool) {
    if q == 0 {
        return (0, false);
    }
    let two = w(2);
    let n = w(f) * w(r);
    let qq = w(q);
    let v = to_u128((two * n + qq) / (two * qq)).unwrap();
    let tie = (two * n) % (two * qq) == qq;
    (v, tie)
}

/// admissible held-fee values by the property: nearest unit, or the next lower one at an exact tie
pub fn prorata_set(f: u128, r: u128, q: u128) -> Vec<u128> {
    let (v, tie) = prorata(f, r, q);
    if tie && v > 0 {
        vec![v, v - 1]
    } else {
        vec![v]
    }
}

/// KF1 window (DESIGN 7.2): is `obs` the half-up rounding of some value within
/// +-2e-27*F of the exact quotient F*r/q ?  Computed exactly in integers scaled by 10^27 * 2q.
pub fn within_kf1_window(f: u128, r: u128, q: u128, obs: u128) -> bool {
    if q == 0 {
        return false;
    }
    // exact x = f*r/q. window [x - e, x + e], e = 2*f/10^27.
    // obs is half-up rounding of y  <=>  obs - 1/2 <= y < obs + 1/2
    // exists y in window  <=>  x - e < obs + 1/2  and  x + e >= obs - 1/2
    let s = pow10(27);
    let qq = w(q);
    let two = w(2);
    // multiply everything by 2*q*s
    let x = two * s * w(f) * w(r); // x * 2qs
    let e = two * two * w(f) * qq; // e * 2qs = (2f/1e27) * 2 q s = 4 f q
    let lo_ok = {
        // x - e < obs + 1/2   <=>  x < e + (2*obs+1) q s
        x < e + (two * w(obs) + w(1)) * qq * s
    };
    let hi_ok = {
        // x + e >= obs - 1/2  <=> x + e + q s >= 2 obs q s
        x + e + qq * s >= two * w(obs) * qq * s
    };
    lo_ok && hi_ok
}

#[cfg(test)]
mod tests {
    use super::*;
    #[test]
    fn basics() {
        let d = parse_dec("2.50").unwrap();
        assert_eq!(d.mul_int(4), Some(10));
        assert_eq!(d.mul_int(1), None);
        assert!(d.within_precision(1));
        assert!(!parse_dec("2.55").unwrap().within_precision(1));
        assert_eq!(parse_dec("0.5").unwrap().fee_of(1), Some(1));
        assert_eq!(parse_dec("0.5").unwrap().fee_of(3), Some(2));
        assert_eq!(prorata(1, 1, 2), (1, true));
        assert_eq!(prorata_set(1, 1, 2), vec![1, 0]);
        assert!(parse_dec("-1").is_none());
        assert!(parse_dec("1e3").is_none());
        assert_eq!(parse_dec("+1").unwrap().form, Form::Gray);
        assert_eq!(parse_dec(".5").unwrap().form, Form::Gray);
        assert_eq!(parse_dec("02.5").unwrap().form, Form::Plain);
        assert!(within_kf1_window(10, 1, 3, 3));
        assert!(!within_kf1_window(10, 1, 3, 4));
    }
}
