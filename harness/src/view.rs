// Views of the book and configuration read back from RAW storage (raw keys, raw JSON), independent
// of the repository's Rust types and of its queries.
use crate::sim::World;
use serde_json::Value;
use std::collections::BTreeMap;

pub fn u(v: &Value) -> Option<u128> {
    v.as_str()?.parse().ok()
}
fn s(v: &Value) -> Option<String> {
    v.as_str().map(|x| x.to_string())
}
fn strs(v: &Value) -> Option<Vec<String>> {
    v.as_array()?.iter().map(s).collect()
}

#[derive(Clone, Debug, PartialEq)]
pub struct FeeCfg {
    pub account: String,
    pub rate: String,
}

#[derive(Clone, Debug, PartialEq)]
pub struct Cfg {
    pub name: String,
    pub bind_name: String,
    pub base: String,
    pub convs: Vec<String>,
    pub quotes: Vec<String>,
    pub approvers: Vec<String>,
    pub executors: Vec<String>,
    pub ask_fee: Option<FeeCfg>,
    pub bid_fee: Option<FeeCfg>,
    pub ask_attrs: Vec<String>,
    pub bid_attrs: Vec<String>,
    pub prec: u128,
    pub inc: u128,
}

impl Cfg {
    pub fn from_json(v: &Value) -> Option<Cfg> {
        let fee = |x: &Value| -> Option<Option<FeeCfg>> {
            if x.is_null() {
                Some(None)
            } else {
                Some(Some(FeeCfg { account: s(&x["account"])?, rate: s(&x["rate"])? }))
            }
        };
        Some(Cfg {
            name: s(&v["name"])?,
            bind_name: s(&v["bind_name"])?,
            base: s(&v["base_denom"])?,
            convs: strs(&v["convertible_base_denoms"])?,
            quotes: strs(&v["supported_quote_denoms"])?,
            approvers: strs(&v["approvers"])?,
            executors: strs(&v["executors"])?,
            ask_fee: fee(&v["ask_fee_info"])?,
            bid_fee: fee(&v["bid_fee_info"])?,
            ask_attrs: strs(&v["ask_required_attributes"])?,
            bid_attrs: strs(&v["bid_required_attributes"])?,
            // clamped so that the oracles' own arithmetic stays total even on a tree that admitted a
            // nonsensical configuration (that admission is reported by C13 where it happens)
            prec: u(&v["price_precision"])?.min(60),
            inc: u(&v["size_increment"])?.max(1),
        })
    }
}

#[derive(Clone, Debug, PartialEq)]
pub enum AskClass {
    Basic,
    Pending,
    Ready { approver: String, cb_denom: String, cb_amount: u128 },
}
impl AskClass {
    pub fn name(&self) -> &'static str {
        match self {
            AskClass::Basic => "basic",
            AskClass::Pending => "pending",
            AskClass::Ready { .. } => "ready",
        }
    }
}

#[derive(Clone, Debug, PartialEq)]
pub struct Ask {
    pub id: String,
    pub owner: String,
    pub class: AskClass,
    pub base: String,
    pub quote: String,
    pub price: String,
    pub size: u128,
    pub raw: Value,
}
impl Ask {
    pub fn from_json(v: &Value) -> Option<Ask> {
        let class = match &v["class"] {
            Value::String(x) if x == "Basic" => AskClass::Basic,
            Value::Object(o) if o.len() == 1 && o.contains_key("Convertible") => {
                let st = &o["Convertible"]["status"];
                match st {
                    Value::String(x) if x == "PendingIssuerApproval" => AskClass::Pending,
                    Value::Object(so) if so.len() == 1 && so.contains_key("Ready") => {
                        let r = &so["Ready"];
                        AskClass::Ready {
                            approver: s(&r["approver"])?,
                            cb_denom: s(&r["converted_base"]["denom"])?,
                            cb_amount: u(&r["converted_base"]["amount"])?,
                        }
                    }
                    _ => return None,
                }
            }
            _ => return None,
        };
        Some(Ask {
            id: s(&v["id"])?,
            owner: s(&v["owner"])?,
            class,
            base: s(&v["base"])?,
            quote: s(&v["quote"])?,
            price: s(&v["price"])?,
            size: u(&v["size"])?,
            raw: v.clone(),
        })
    }
}

#[derive(Clone, Debug, PartialEq)]
pub struct Bid {
    pub id: String,
    pub owner: String,
    pub base_denom: String,
    pub base_amount: u128,
    pub acc_base: u128,
    pub acc_quote: u128,
    pub acc_fee: u128,
    pub fee: Option<(String, u128)>, // (denom, amount)
    pub price: String,
    pub quote_denom: String,
    pub quote_amount: u128,
    pub raw: Value,
}
impl Bid {
    pub fn from_json(v: &Value) -> Option<Bid> {
        let fee = if v["fee"].is_null() {
            None
        } else {
            Some((s(&v["fee"]["denom"])?, u(&v["fee"]["amount"])?))
        };
        Some(Bid {
            id: s(&v["id"])?,
            owner: s(&v["owner"])?,
            base_denom: s(&v["base"]["denom"])?,
            base_amount: u(&v["base"]["amount"])?,
            acc_base: u(&v["accumulated_base"])?,
            acc_quote: u(&v["accumulated_quote"])?,
            acc_fee: u(&v["accumulated_fee"])?,
            fee,
            price: s(&v["price"])?,
            quote_denom: s(&v["quote"]["denom"])?,
            quote_amount: u(&v["quote"]["amount"])?,
            raw: v.clone(),
        })
    }
    pub fn rem_base(&self) -> i128 {
        self.base_amount as i128 - self.acc_base as i128
    }
    pub fn rem_quote(&self) -> i128 {
        self.quote_amount as i128 - self.acc_quote as i128
    }
    pub fn fee_amount(&self) -> u128 {
        self.fee.as_ref().map_or(0, |f| f.1)
    }
    pub fn rem_fee(&self) -> i128 {
        self.fee_amount() as i128 - self.acc_fee as i128
    }
    /// all remainders non-negative
    pub fn sane(&self) -> bool {
        self.rem_base() >= 0 && self.rem_quote() >= 0 && self.rem_fee() >= 0
    }
}

/// The complete book as found in raw storage. Entries that do not parse as current-format orders
/// (e.g. legacy-format bids before a migration) are kept in `odd_*`.
#[derive(Clone, Debug, PartialEq, Default)]
pub struct Book {
    pub asks: BTreeMap<String, Ask>,
    pub bids: BTreeMap<String, Bid>,
    pub odd_asks: BTreeMap<String, Vec<u8>>,
    pub odd_bids: BTreeMap<String, Vec<u8>>,
}

impl Book {
    pub fn read(w: &World) -> Book {
        let mut b = Book::default();
        for (k, raw) in w.scan_raw("ask") {
            match serde_json::from_slice::<Value>(&raw).ok().and_then(|v| Ask::from_json(&v)) {
                Some(a) => {
                    b.asks.insert(k, a);
                }
                None => {
                    b.odd_asks.insert(k, raw);
                }
            }
        }
        for (k, raw) in w.scan_raw("bid") {
            match serde_json::from_slice::<Value>(&raw).ok().and_then(|v| Bid::from_json(&v)) {
                Some(x) => {
                    b.bids.insert(k, x);
                }
                None => {
                    b.odd_bids.insert(k, raw);
                }
            }
        }
        b
    }
    pub fn is_empty(&self) -> bool {
        self.asks.is_empty() && self.bids.is_empty() && self.odd_asks.is_empty() && self.odd_bids.is_empty()
    }
    pub fn n_asks(&self) -> usize {
        self.asks.len() + self.odd_asks.len()
    }
    pub fn n_bids(&self) -> usize {
        self.bids.len() + self.odd_bids.len()
    }
}

pub fn read_cfg(w: &World) -> Option<Cfg> {
    w.item_raw("contract_info").and_then(|v| Cfg::from_json(&v))
}
pub fn read_version(w: &World) -> Option<(String, String)> {
    let v = w.item_raw("version_info")?;
    Some((s(&v["definition"])?, s(&v["version"])?))
}

/// everything in storage that is neither the book nor the two items
pub fn other_keys(w: &World) -> Vec<Vec<u8>> {
    let pa = crate::sim::map_prefix("ask");
    let pb = crate::sim::map_prefix("bid");
    w.store
        .data
        .keys()
        .filter(|k| {
            !k.starts_with(&pa)
                && !k.starts_with(&pb)
                && k.as_slice() != b"contract_info"
                && k.as_slice() != b"version_info"
        })
        .cloned()
        .collect()
}
