// atsmon: runtime monitoring of the ATS order-book contract. See /verif/DESIGN.md.
mod big;
mod engine;
mod exact;
mod explore;
mod gen;
mod matrices;
mod migrate;
mod model;
mod mon;
mod probes;
mod rng;
mod scenarios;
mod sim;
mod stats;
mod view;

use engine::*;
use gen::*;
use serde_json::{json, Value};
use stats::*;
use std::collections::BTreeMap;
use std::sync::atomic::{AtomicUsize, Ordering};
use std::sync::Arc;
use std::time::Instant;

#[derive(Clone, Debug)]
enum Task {
    Random(Regime, u64),
    Migration(u64),
    RandomLogs(u64),
    Explore(usize, u32, u64),
}

struct Plan {
    tasks: Vec<Task>,
    scenarios: bool,
    marker_matrix: bool,
    inst_matrix: bool,
    integrality: bool,
    modify_matrix: bool,
    version_matrix: bool,
}

fn plan(prop: &str, thorough: bool, seed: u64) -> Plan {
    let mut tasks = vec![];
    let mut add = |rg: &Regime, n: u64, tasks: &mut Vec<Task>| {
        // quick: a few seconds per property on 16 cores; thorough: ten times that
        let n = if thorough { n * 40 } else { n * 4 };
        for i in 0..n {
            tasks.push(Task::Random(rg.clone(), seed.wrapping_mul(1_000_003).wrapping_add(i * 7919 + rg.name.len() as u64 * 104729)));
        }
    };
    let mut p = Plan { tasks: vec![], scenarios: true, marker_matrix: false, inst_matrix: false, integrality: false, modify_matrix: false, version_matrix: false };
    match prop {
        "C01" => { add(&NARROW, 60, &mut tasks); let nm = if thorough { 3000 } else { 300 }; for i in 0..nm { tasks.push(Task::Migration(seed.wrapping_mul(77).wrapping_add(i))); } add(&TRADE, 500, &mut tasks); add(&ROLES, 200, &mut tasks); add(&GRIND, 150, &mut tasks); add(&DEEP, 30, &mut tasks); add(&BIG, 100, &mut tasks); add(&HOSTILE, 150, &mut tasks); add(&LEGACY, 60, &mut tasks); p.marker_matrix = true; }
        "C02" => { add(&NARROW, 60, &mut tasks); let nm = if thorough { 3000 } else { 300 }; for i in 0..nm { tasks.push(Task::Migration(seed.wrapping_mul(77).wrapping_add(i))); } add(&TRADE, 500, &mut tasks); add(&ROLES, 300, &mut tasks); add(&GRIND, 200, &mut tasks); add(&BIG, 100, &mut tasks); p.marker_matrix = true; }
        "C03" => { add(&NARROW, 60, &mut tasks); let nm = if thorough { 3000 } else { 300 }; for i in 0..nm { tasks.push(Task::Migration(seed.wrapping_mul(77).wrapping_add(i))); } add(&TRADE, 300, &mut tasks); add(&HOSTILE, 300, &mut tasks); add(&GRIND, 60, &mut tasks); add(&BIG, 60, &mut tasks); add(&LEGACY, 40, &mut tasks); }
        "C04" => { add(&NARROW, 60, &mut tasks); let nm = if thorough { 3000 } else { 300 }; for i in 0..nm { tasks.push(Task::Migration(seed.wrapping_mul(77).wrapping_add(i))); } add(&TRADE, 350, &mut tasks); add(&ROLES, 150, &mut tasks); add(&GRIND, 200, &mut tasks); add(&HOSTILE, 100, &mut tasks); add(&BIG, 60, &mut tasks); add(&LEGACY, 60, &mut tasks); p.marker_matrix = true; }
        "C05" => { add(&TRADE, 120, &mut tasks); add(&ROLES, 120, &mut tasks); add(&HOSTILE, 120, &mut tasks); add(&LEGACY, 100, &mut tasks); }
        "C06" => { add(&NARROW, 60, &mut tasks); let nm = if thorough { 3000 } else { 300 }; for i in 0..nm { tasks.push(Task::Migration(seed.wrapping_mul(77).wrapping_add(i))); } add(&TRADE, 400, &mut tasks); add(&GRIND, 150, &mut tasks); add(&DEEP, 20, &mut tasks); add(&LEGACY, 150, &mut tasks); add(&BIG, 60, &mut tasks); add(&HOSTILE, 100, &mut tasks); p.marker_matrix = true; }
        "C07" => { add(&NARROW, 60, &mut tasks); add(&LEGACY, 150, &mut tasks); add(&HOSTILE, 700, &mut tasks); add(&TRADE, 150, &mut tasks); add(&BIG, 150, &mut tasks); }
        "C08" => { add(&TRADE, 500, &mut tasks); add(&HOSTILE, 300, &mut tasks); add(&ROLES, 150, &mut tasks); p.marker_matrix = true; }
        "C09" => { add(&NARROW, 60, &mut tasks); let nm = if thorough { 3000 } else { 300 }; for i in 0..nm { tasks.push(Task::Migration(seed.wrapping_mul(77).wrapping_add(i))); } add(&GRIND, 500, &mut tasks); add(&TRADE, 300, &mut tasks); add(&BIG, 100, &mut tasks); add(&ROLES, 100, &mut tasks); add(&HOSTILE, 200, &mut tasks); }
        "C10" => { add(&TRADE, 400, &mut tasks); add(&HOSTILE, 150, &mut tasks); add(&GRIND, 80, &mut tasks); p.marker_matrix = true; }
        "C11" => { add(&NARROW, 60, &mut tasks); add(&DEEP, 60, &mut tasks); add(&TRADE, 400, &mut tasks); add(&HOSTILE, 200, &mut tasks); add(&LEGACY, 50, &mut tasks); }
        "C12" => { let mut m = TRADE.clone(); m.name = "modify-heavy"; m.modify_pct = 30; add(&m, 400, &mut tasks); let mut gm = GRIND.clone(); gm.name = "grind-modify"; gm.modify_pct = 20; add(&gm, 150, &mut tasks); let mut hm = HOSTILE.clone(); hm.modify_pct = 30; add(&hm, 200, &mut tasks); p.modify_matrix = true; }
        "C13" => { add(&TRADE, 60, &mut tasks); p.inst_matrix = true; p.integrality = true; }
        "C14" => { let n = if thorough { 20000 } else { 2000 }; for i in 0..n { tasks.push(Task::Migration(seed.wrapping_mul(77).wrapping_add(i))); } for i in 0..n / 3 { tasks.push(Task::RandomLogs(seed.wrapping_mul(131).wrapping_add(i))); } p.version_matrix = true; }
        "C15" => { let n = if thorough { 28000 } else { 2800 }; for i in 0..n { tasks.push(Task::Migration(seed.wrapping_mul(77).wrapping_add(i))); } for i in 0..n / 2 { tasks.push(Task::RandomLogs(seed.wrapping_mul(131).wrapping_add(i))); } p.version_matrix = true; }
        "C16" => { add(&TRADE, 300, &mut tasks); add(&LEGACY, 100, &mut tasks); add(&HOSTILE, 100, &mut tasks); }
        "C17" => { add(&NARROW, 60, &mut tasks); add(&TRADE, 500, &mut tasks); add(&GRIND, 200, &mut tasks); add(&ROLES, 150, &mut tasks); add(&HOSTILE, 100, &mut tasks); let n = if thorough { 8000 } else { 800 }; for i in 0..n { tasks.push(Task::Migration(seed.wrapping_mul(77).wrapping_add(i))); } p.marker_matrix = true; }
        _ => { add(&TRADE, 200, &mut tasks); add(&HOSTILE, 100, &mut tasks); add(&GRIND, 60, &mut tasks); add(&BIG, 40, &mut tasks); add(&LEGACY, 40, &mut tasks); add(&DEEP, 10, &mut tasks); for i in 0..100 { tasks.push(Task::Migration(seed.wrapping_mul(77).wrapping_add(i))); } p.marker_matrix = true; p.inst_matrix = true; p.modify_matrix = true; p.version_matrix = true; p.integrality = true; }
    }
    if matches!(prop, "C01" | "C02" | "C03" | "C04" | "C05" | "C06" | "C07" | "C08" | "C09" | "C10" | "C11" | "C16" | "C17") {
        // W6: bounded exhaustive exploration of short histories on four tiny markets (first in the
        // queue: they are the longest single tasks)
        // probe-heavy properties get a smaller node budget (each node also runs their probes)
        let scale: u64 = match prop { "C05" => 10, "C03" | "C04" | "C06" | "C08" | "C16" => 40, _ => 100 };
        let (depth, budget) = if thorough { (40, 20_000 * scale) } else { (12, 600 * scale) };
        let mut ex: Vec<Task> = (0..explore::tiny_markets().len()).map(|i| Task::Explore(i, depth, budget)).collect();
        ex.extend(tasks.drain(..));
        tasks = ex;
    }
    if let Some(lim) = std::env::var("VERIF_TASK_LIMIT").ok().and_then(|s| s.parse::<usize>().ok()) {
        // reduced workload for the sanitizer runs (valgrind / Miri): an even sample of the task list
        if lim == 0 {
            tasks.clear();
        } else if tasks.len() > lim {
            let step = tasks.len() / lim;
            tasks = tasks.into_iter().step_by(step.max(1)).take(lim).collect();
        }
    }
    if std::env::var("VERIF_NO_MATRICES").is_ok() {
        p.marker_matrix = false;
        p.inst_matrix = false;
        p.integrality = false;
        p.modify_matrix = false;
        p.version_matrix = false;
    }
    p.tasks = tasks;
    p
}

fn floors(prop: &str, st: &Stats) -> Vec<String> {
    let mut miss: Vec<String> = vec![];
    let mut needs: Vec<(&'static str, String)> = vec![];
    let mut need = |p: &'static str, k: &str| needs.push((p, k.to_string()));
    let g = |k: &str| st.global.get(k).copied().unwrap_or(0);
    match prop {
        "C01" => { need("C01", "states_checked"); need("C01", "orders_closed_with_zero_escrow_checked"); need("C01", "drains_checked"); }
        "C02" => need("C02", "accepted_matches_judged"),
        "C03" => { if g("exec:execute_match:ok") == 0 { miss.push("no accepted match observed".into()); } if g("exec:execute_match:err") == 0 { miss.push("no refused match observed".into()); } need("C03", "boundary_probes"); }
        "C04" => { need("C04", "accepted_reversals_judged"); need("C04", "partial_size_probes"); }
        "C05" => { need("C05", "matrix_probes"); need("C05", "matrix_probes_refused"); }
        "C06" => { need("C06", "exit_probes"); need("C06", "exit_probes_on_non_lot_remainder"); }
        "C07" => { need("C07", "accepted_ask_funds"); need("C07", "accepted_bid_funds"); need("C07", "accepted_ask_pull"); need("C07", "accepted_bid_pull"); }
        "C08" => { need("C08", "accepted_approvals"); need("C08", "approve_probes"); }
        "C09" => { need("C09", "held_fee_ties"); need("C09", "entry_fee_rounds_to_zero"); }
        "C10" => need("C10", "marker_assignments_enumerated"),
        "C12" => { need("C12", "accepted_modifications"); need("C12", "matrix_requests"); }
        "C13" => { need("C13", "accepted_instantiations"); need("C13", "matrix_instantiations"); need("C13", "integrality_scenarios"); }
        "C14" => { need("C14", "accepted_migrations"); need("C14", "refused_migrations"); need("C14", "second_migrations_checked"); }
        "C15" => { need("C15", "old_format_bids_converted"); need("C15", "roundtrips_compared_byte_for_byte"); need("C15", "current_format_bids_checked"); }
        "C16" => need("C16", "query_batteries"),
        "C17" => need("C17", "shadow_comparisons"),
        _ => {}
    }
    for (p, k) in needs {
        if st.get(p, &k) == 0 {
            miss.push(format!("no event counted for {}:{}", p, k));
        }
    }
    if let Some(p) = PROPS.iter().find(|p| **p == prop) {
        if st.props.get(p).map_or(0, |x| x.evals) == 0 {
            miss.push(format!("the {} oracle was never exercised", p));
        }
    }
    miss
}

fn rule_text(prop: &str) -> &'static str {
    match prop {
        "C01" => "every accepted step of every history (scripted W0, random W1-W3, marker matrix): conservation per denomination, per-order escrow ledger, funding of each payout, end-of-history drain. distinct = (request kind, order class/state, fee class, closes/stays, marker kinds)",
        "C02" => "every accepted ExecuteMatch judged against the model's admissible net-delta maps from the observed pre-state. distinct = ask class x ask part/full x bid part/full x price choice x ask-fee class x bid-fee class x fee-refund class x earlier fills x role-coincidence pattern x marker kinds",
        "C03" => "every ExecuteMatch request (history + boundary probes on copies) judged both ways against the eligibility predicate. distinct = refusal reason / accept class x observed outcome x price string form",
        "C04" => "every accepted cancel/expire/reject judged against expected net deltas and bookkeeping; explicit partial sizes probed from 0 to beyond the remainder. distinct = kind x order state x full/partial x closes/stays x fee class x coincidence x markers",
        "C05" => "sender-class x guarded-request matrix probed on copies of sampled states, plus every accepted guarded step. distinct = (request kind, sender's role set, outcome)",
        "C06" => "owner cancel and executor expire attempted on a copy of EVERY visited state for EVERY open order. distinct = (exit kind, class/state, remainder is lot multiple?, fee class, id form, markers)",
        "C07" => "every CreateAsk/CreateBid (valid and field-wise mutated) judged both ways against the admission predicate; accepted ones compared with the recorded order and the escrow taken. distinct = side x verdict class x outcome x precision",
        "C08" => "every accepted ApproveAsk judged against the approval conditions; every approved ask checked after every step. distinct = approve pre-class / state-after-kind x markers",
        "C09" => "fee at entry, ask fee per match, bid fee per fill and the held fee of every open fee-bearing bid after every step, in exact integers. distinct = (event kind, rate / F mod 7, tie?, zero?, improved?)",
        "C10" => "every message of every accepted response judged against the marker table served. distinct = (request kind, mechanism, marker kind of the coin, kinds of all coins in the response)",
        "C11" => "full raw-book and raw-item diff around every accepted call; consistency of every order at every state. distinct = (request kind, #other orders, #entries touched)",
        "C12" => "every accepted ModifyContract (history + presence-mask matrix on four book states) judged against the freeze rules and exact installation; market parameters compared around every execute. distinct = (presence mask, book state, value form, outcome)",
        "C13" => "instantiate matrix (precision x increment x fee forms x field defects) judged both ways + stored records; integrality sweep trades admissible prices/sizes. distinct = verdict class x outcome x precision x increment class x fee forms",
        "C14" => "migrate on states synthesised from real histories and on the version x override matrix; whole-storage diff, idempotence. distinct = (version class, message validity, override mask, outcome, book class)",
        "C15" => "old-format bids synthesised from observed events (round trip byte-for-byte) and from random logs (independent summation), followed by continuation histories under all monitors. distinct = (conversion class, #events, event kinds, fee, version side)",
        "C16" => "query battery after sampled steps: open / closed / never-used / legacy-form / malformed ids, storage compared around each query, cancel-agreement. distinct = (query kind, id status, id form, result)",
        "C17" => "attributes of every accepted response compared with ledger and book; attribute-driven shadow book compared with the raw book at every state. distinct = (action, closes/stays, fee classes, improved?)",
        _ => "all monitors",
    }
}

fn load_known() -> Value {
    let path = std::env::var("VERIF_KNOWN").unwrap_or_else(|_| "/verif/known_findings.json".into());
    std::fs::read_to_string(path).ok().and_then(|s| serde_json::from_str(&s).ok()).unwrap_or(json!({"findings": []}))
}

fn main() {
    // any panic of the harness itself on the main thread is a harness defect: inconclusive, never a verdict
    let r = std::panic::catch_unwind(real_main);
    if r.is_err() {
        println!("INCONCLUSIVE: the harness itself panicked (harness defect, not a verdict); rerun with VERIF_DEBUG_PANIC=1");
        std::process::exit(2);
    }
}

fn real_main() {
    let args: Vec<String> = std::env::args().collect();
    if args.len() < 2 {
        eprintln!("usage: atsmon <C01..C17|ALL> [quick|thorough] [--replay file] [--evidence dir]");
        std::process::exit(2);
    }
    if std::env::var("VERIF_DEBUG_PANIC").is_err() {
        std::panic::set_hook(Box::new(|_| {}));
    }
    let prop_arg = args[1].to_uppercase();
    let prop: &'static str = PROPS.iter().find(|p| **p == prop_arg).copied().unwrap_or("ALL");
    let mut tier = std::env::var("VERIF_TIER").unwrap_or_else(|_| "quick".into());
    let mut replay: Option<String> = None;
    let mut i = 2;
    while i < args.len() {
        match args[i].as_str() {
            "quick" | "thorough" => tier = args[i].clone(),
            "--replay" => {
                replay = args.get(i + 1).cloned();
                i += 1;
            }
            _ => {}
        }
        i += 1;
    }
    let thorough = tier == "thorough";
    let seed_in: i128 = std::env::var("VERIF_SEED").ok().and_then(|s| s.trim().parse::<i128>().ok()).unwrap_or(20261001);
    let seed: u64 = seed_in as u64;
    let t0 = Instant::now();
    let opts = Opts::for_prop(prop);
    if let Some(path) = replay {
        std::process::exit(run_replay(&path, prop));
    }

    let pl = plan(prop, thorough, seed);
    let mut st = Stats::default();
    let mut bad: Vec<History> = vec![];
    let mut w0_fail: Vec<String> = vec![];
    let mut sample_hist: Vec<Value> = vec![];

    if pl.scenarios {
        let sc_opts = if prop == "C05" { Opts { auth_pct: 100, ..opts.clone() } } else if prop == "C16" { Opts { query_pct: 100, ..opts.clone() } } else { opts.clone() };
        for (h, fails) in scenarios::all_scenarios(&sc_opts, &mut st) {
            w0_fail.extend(fails);
            if sample_hist.len() < 2 {
                sample_hist.push(excerpt(&h));
            }
            if !h.found.is_empty() {
                bad.push(h);
            }
        }
    }
    if pl.marker_matrix {
        for (h, fails) in matrices::marker_matrix(&opts, &mut st) {
            w0_fail.extend(fails);
            if !h.found.is_empty() {
                bad.push(h);
            }
        }
    }
    if pl.inst_matrix {
        bad.extend(matrices::instantiate_matrix(&opts, &mut st, thorough));
    }
    if pl.integrality {
        for (h, fails) in matrices::integrality_sweep(&opts, &mut st, thorough) {
            w0_fail.extend(fails);
            if !h.found.is_empty() {
                bad.push(h);
            }
        }
    }
    if pl.modify_matrix {
        bad.extend(matrices::modify_matrix(&opts, &mut st, thorough));
    }
    if pl.version_matrix {
        bad.extend(matrices::version_matrix(&opts, &mut st));
        // a fixed set of migration histories (independent of VERIF_SEED) so that the round-trip and
        // conversion floors are reached by construction
        for s in 1..=60u64 {
            let h = migrate::run_migration_history(0xF1_0000 + s, &opts, &mut st);
            if !h.found.is_empty() {
                bad.push(h);
            }
        }
    }

    // random workloads, sharded over the cores
    let tasks = Arc::new(pl.tasks);
    let next = Arc::new(AtomicUsize::new(0));
    let nthreads = std::env::var("VERIF_THREADS").ok().and_then(|s| s.parse().ok()).unwrap_or(16usize).max(1);
    let watchdog_s: u64 = std::env::var("VERIF_WATCHDOG_S").ok().and_then(|s| s.parse().ok()).unwrap_or(if thorough { 3000 } else { 600 });
    let mut handles = vec![];
    for _ in 0..nthreads {
        let tasks = tasks.clone();
        let next = next.clone();
        let opts = opts.clone();
        handles.push(std::thread::spawn(move || {
            let mut st = Stats::default();
            let mut bad = vec![];
            let mut sample = None;
            let mut timed_out = false;
            loop {
                let i = next.fetch_add(1, Ordering::SeqCst);
                if i >= tasks.len() {
                    break;
                }
                if t0.elapsed().as_secs() > watchdog_s {
                    timed_out = true;
                    break;
                }
                let task_result = std::panic::catch_unwind(std::panic::AssertUnwindSafe(|| -> Option<History> { Some(match &tasks[i] {
                    Task::Random(rg, s) => run_random(*s, rg, &opts, &mut st),
                    Task::Migration(s) => migrate::run_migration_history(*s, &opts, &mut st),
                    Task::RandomLogs(s) => {
                        let o = Opts { drain: false, ..opts.clone() };
                        migrate::run_random_logs(*s, &o, &mut st)
                    }
                    Task::Explore(mi, depth, budget) => {
                        let markets = explore::tiny_markets();
                        let mut found = explore::explore(&markets[*mi], *depth, *budget, &opts, &mut st);
                        bad.extend(found.drain(..).take(20));
                        return None;
                    }
                }) }));
                let h = match task_result {
                    Ok(Some(h)) => h,
                    Ok(None) => continue,
                    Err(_) => {
                        // a defect of the harness itself on this one history: counted, never a verdict
                        st.g("harness_panics");
                        continue;
                    }
                };
                if sample.is_none() && h.ops.len() > 8 {
                    sample = Some(excerpt(&h));
                }
                if !h.found.is_empty() && bad.len() < 200 {
                    bad.push(h);
                }
            }
            (st, bad, sample, timed_out)
        }));
    }
    let mut timed_out = false;
    for h in handles {
        match h.join() {
            Ok((s, b, sample, to)) => {
                st.merge(s);
                bad.extend(b);
                if let Some(x) = sample {
                    if sample_hist.len() < 3 {
                        sample_hist.push(x);
                    }
                }
                timed_out |= to;
            }
            Err(_) => {
                println!("INCONCLUSIVE: a harness worker thread panicked (harness defect, not a verdict); rerun with VERIF_DEBUG_PANIC=1");
                std::process::exit(2);
            }
        }
    }

    // verdict
    let known = load_known();
    let mut by_sig: BTreeMap<(String, String), (usize, &History, &Found)> = BTreeMap::new();
    let mut other: BTreeMap<String, u64> = BTreeMap::new();
    let mut kf_lines: BTreeMap<String, u64> = BTreeMap::new();
    for h in &bad {
        for f in &h.found {
            let mine = f.viol.prop == prop || prop == "ALL";
            if !mine {
                *other.entry(f.viol.prop.to_string()).or_insert(0) += 1;
                continue;
            }
            if let Some(kf) = f.viol.kf {
                let listed = known["findings"].as_array().map_or(false, |a| a.iter().any(|e| e["id"] == kf && e["status"] == "open" && e["properties"].as_array().map_or(false, |p| p.iter().any(|x| x == f.viol.prop))));
                if listed {
                    *kf_lines.entry(format!("property={} {} {}", f.viol.prop, kf, f.viol.sig)).or_insert(0) += 1;
                    continue;
                }
            }
            let e = by_sig.entry((f.viol.prop.to_string(), f.viol.sig.clone())).or_insert((0, h, f));
            e.0 += 1;
        }
    }
    let _ = std::fs::create_dir_all("/verif/out/replays");
    let mut printed = 0;
    for ((p, sig), (n, h, f)) in &by_sig {
        let path = format!("/verif/out/replays/{}-{:016x}.json", p, fnv(format!("{}{}{}", sig, h.label, f.step).as_bytes()));
        let mut rj = h.replay_json(f.step);
        if let Some(pr) = &f.viol.probe {
            rj["ops"].as_array_mut().unwrap().push(pr.clone());
            rj["note"] = json!("the last op is the probe request that exposed the violation; during the run it was issued on a copy of the state");
        }
        rj["violation"] = json!({"property": p, "monitor": f.viol.monitor, "signature": sig, "witness": f.viol.detail, "step": f.step, "occurrences": n});
        let _ = std::fs::write(&path, serde_json::to_string_pretty(&rj).unwrap());
        if printed < 12 {
            println!("VIOLATION property={} replay={}", p, path);
            println!("  monitor={} signature={} (x{})", f.viol.monitor, sig, n);
            let d: String = f.viol.detail.chars().take(600).collect();
            println!("  witness: {}", d);
            printed += 1;
        }
    }
    for (l, n) in &kf_lines {
        println!("KNOWN-FINDING: {} (x{})", l, n);
    }
    let miss = if prop == "ALL" { vec![] } else { floors(prop, &st) };
    let wall = t0.elapsed().as_secs_f64();

    // evidence
    let props_to_write: Vec<&'static str> = if prop == "ALL" || std::env::var("VERIF_NO_EVIDENCE").is_ok() { vec![] } else { vec![prop] };
    for p in props_to_write {
        let ps = st.props.get(p).cloned().unwrap_or_default();
        let mut samples = ps.samples.clone();
        samples.extend(sample_hist.iter().cloned());
        if samples.is_empty() {
            samples.push(json!("no sample recorded"));
        }
        let ev = json!({
            "property_id": p, "tier": tier, "seed": seed_in as i64, "level": "exploration",
            "coverage": {
                "evaluations": ps.evals, "distinct_nontrivial": ps.cases.len(), "rule": rule_text(p),
                "samples": samples,
                "counters": ps.counters,
                "distinct_cases_seen": ps.cases.iter().take(400).collect::<Vec<_>>(),
                "requests_by_kind_and_outcome": st.global,
                "distinct_books_seen": st.books.len(),
                "histories": st.global.get("histories"), "calls": st.global.get("steps"), "probe_requests": st.global.get("probes"),
                "w0_expectation_failures": w0_fail,
                "other_properties_flagged": other,
                "known_findings_observed": kf_lines,
                "coverage_floor_misses": miss,
                "watchdog_fired": timed_out,
                "harness_panics": st.global.get("harness_panics"),
                "exhaustive": false,
                "exhaustive_matrices": exhaustive_list(p),
            },
            "assumptions": [
                "native build of the contract is monitored, not the wasm32 artifact",
                "bank, marker and attribute modules and address validation are modelled (MockApi rule: lower-case, 3..=90 chars)",
                "two-sided accept/refuse judgement only inside the exact-decimal domain (products below 2^95); outside it only 'accepted => conditions hold'",
                "transactions are atomic (refused or trapped calls change nothing), as on chain"
            ],
            "wall_s": wall, "violations": by_sig.len(),
        });
        let dir = "/verif/evidence";
        let _ = std::fs::create_dir_all(dir);
        let _ = std::fs::write(format!("{}/{}.json", dir, p), serde_json::to_string_pretty(&ev).unwrap());
    }
    let evals = st.props.get(prop).map_or(0, |x| x.evals);
    let cases = st.props.get(prop).map_or(0, |x| x.cases.len());
    println!("{} {} seed={} histories={} calls={} probes={} evaluations={} distinct_cases={} books={} other_flagged={:?} wall={:.1}s", prop, tier, seed, st.global.get("histories").unwrap_or(&0), st.global.get("steps").unwrap_or(&0), st.global.get("probes").unwrap_or(&0), evals, cases, st.books.len(), other, wall);
    if let Some(n) = st.global.get("harness_panics") {
        println!("note: {} task(s) hit a panic inside the harness and were skipped (rerun with VERIF_DEBUG_PANIC=1 VERIF_THREADS=1 to locate)", n);
    }
    if !w0_fail.is_empty() {
        println!("note: {} scripted W0 step(s) did not have the expected outcome (first: {})", w0_fail.len(), w0_fail[0]);
    }
    if std::env::var("VERIF_W0_DEBUG").is_ok() {
        for f in &w0_fail {
            println!("W0: {}", f);
        }
    }
    if prop == "ALL" {
        for p in PROPS {
            println!("  {} {}", p, st.prop_json(p));
        }
        for (k, v) in &st.global {
            println!("  {:45} {}", k, v);
        }
    }
    if !by_sig.is_empty() {
        std::process::exit(1);
    }
    if timed_out {
        // a truncated workload is still "held on what was observed" provided the coverage floors
        // (reached by the scripted scenarios and matrices, which run first) are met; recorded in evidence
        println!("note: wall-clock watchdog fired after {}s; the random workload was truncated", watchdog_s);
    }
    if !miss.is_empty() {
        println!("INCONCLUSIVE: coverage floor not reached: {}", miss.join("; "));
        std::process::exit(2);
    }
    println!("HELD on everything observed");
}

fn exhaustive_list(p: &str) -> Vec<&'static str> {
    let mut v = exhaustive_list0(p);
    if matches!(p, "C01" | "C02" | "C03" | "C04" | "C05" | "C06" | "C07" | "C08" | "C09" | "C10" | "C11" | "C16" | "C17") {
        v.push("W6: iterative-deepening enumeration of all request sequences over a small alphabet on four tiny markets (depth and node budget in requests_by_kind_and_outcome: w6_*)");
    }
    v
}

fn exhaustive_list0(p: &str) -> Vec<&'static str> {
    match p {
        "C10" | "C01" | "C02" | "C04" | "C06" | "C08" | "C17" => vec!["marker assignment {none, coin, restricted}^3 x fund-moving scenario (27 runs)"],
        "C12" => vec!["presence mask 2^8 x 4 book states x 2 fee starts x value forms"],
        "C13" => vec!["precision x increment-around-10^p x fee forms x field defects (thorough: complete product)"],
        "C14" | "C15" => vec!["stored version strings x 12 migrate messages on one real book"],
        _ => vec![],
    }
}

fn excerpt(h: &History) -> Value {
    json!({"history": h.label, "first_calls": h.ops.iter().zip(h.outcomes.iter()).filter(|(o, _)| o.is_call()).take(8).map(|(o, r)| json!({"request": o.to_json(), "outcome": r})).collect::<Vec<_>>(), "length": h.ops.len()})
}

fn run_replay(path: &str, prop: &'static str) -> i32 {
    let text = match std::fs::read_to_string(path) {
        Ok(t) => t,
        Err(e) => {
            println!("cannot read {}: {}", path, e);
            return 2;
        }
    };
    let v: Value = match serde_json::from_str(&text) {
        Ok(v) => v,
        Err(e) => {
            println!("cannot parse {}: {}", path, e);
            return 2;
        }
    };
    let mut opts = Opts::for_prop(prop);
    opts.exit_probes = prop == "C06" || prop == "ALL";
    opts.query_pct = if prop == "C16" { 100 } else { 0 };
    opts.auth_pct = 0;
    opts.boundary_pct = 0;
    opts.revb_pct = 0;
    opts.approve_pct = 0;
    let mut st = Stats::default();
    let mut h = History::new("replay", 1);
    let ops: Vec<sim::Op> = v["ops"].as_array().map_or(vec![], |a| a.iter().filter_map(sim::Op::from_json).collect());
    let mut hit = false;
    for (i, op) in ops.iter().enumerate() {
        let o = h.step(op.clone(), &opts, &mut st);
        println!("#{:3} {} -> {}", i, op.to_json(), match &o { sim::Outcome::Ok { .. } => "ok".to_string(), x => format!("{:?}", x) });
        for f in h.found.iter().filter(|f| f.step == i) {
            println!("      [{} {}] {} :: {}", f.viol.prop, f.viol.monitor, f.viol.sig, f.viol.detail.chars().take(400).collect::<String>());
            if f.viol.prop == prop || prop == "ALL" {
                hit = true;
            }
        }
        h.stopped = false;
    }
    if hit {
        println!("VIOLATION property={} replay={}", prop, path);
        1
    } else {
        println!("replay produced no violation of {}", prop);
        0
    }
}
