// C14 / C15: migration monitors and legacy-state synthesis (W5).
use crate::engine::*;
use crate::gen::*;
use crate::model::*;
use crate::mon::viol;
use crate::rng::Rng;
use crate::sim::*;
use crate::stats::*;
use crate::view::*;
use serde_json::{json, Value};
use std::collections::BTreeMap;

/// (crate name as the compiler sees it, package version) read from the repository's Cargo.toml,
/// not from the code under test
pub fn package_identity() -> (String, String) {
    let path = format!("{}/Cargo.toml", std::env::var("VERIF_REPO").unwrap_or_else(|_| "/repo".into()));
    let text = std::fs::read_to_string(path).unwrap_or_default();
    let mut name = String::new();
    let mut version = String::new();
    let mut in_pkg = false;
    for line in text.lines() {
        let l = line.trim();
        if l.starts_with('[') {
            in_pkg = l == "[package]";
            continue;
        }
        if in_pkg {
            if let Some(v) = l.strip_prefix("name") {
                name = v.trim().trim_start_matches('=').trim().trim_matches('"').replace('-', "_");
            } else if let Some(v) = l.strip_prefix("version") {
                version = v.trim().trim_start_matches('=').trim().trim_matches('"').to_string();
            }
        }
    }
    (name, version)
}

fn cu(v: &Value) -> Option<u128> {
    v.as_str()?.parse().ok()
}

/// independent conversion of an old-format bid (event log) into the current format
pub fn convert_v2(v: &Value) -> Option<Value> {
    let events = v.get("events")?.as_array()?;
    if v.get("accumulated_base").is_some() {
        return None;
    }
    let (mut sb, mut sq, mut sf) = (0u128, 0u128, 0u128);
    for e in events {
        let act = e.get("action")?.as_object()?;
        if act.len() != 1 {
            return None;
        }
        let (k, a) = act.iter().next()?;
        let fee = match a.get("fee") {
            None | Some(Value::Null) => 0,
            Some(f) => cu(&f["amount"])?,
        };
        let quote = cu(&a["quote"]["amount"])?;
        match k.as_str() {
            "Fill" | "Reject" => {
                sb = sb.checked_add(cu(&a["base"]["amount"])?)?;
            }
            "Refund" => {}
            _ => return None,
        }
        sq = sq.checked_add(quote)?;
        sf = sf.checked_add(fee)?;
    }
    // all other fields must be well-formed for the entry to count as an old-format bid
    v["base"]["amount"].as_str()?;
    v["quote"]["amount"].as_str()?;
    v["id"].as_str()?;
    v["owner"].as_str()?;
    v["price"].as_str()?;
    Some(json!({"base": v["base"], "accumulated_base": sb.to_string(), "accumulated_quote": sq.to_string(), "accumulated_fee": sf.to_string(),
        "fee": v["fee"], "id": v["id"], "owner": v["owner"], "price": v["price"], "quote": v["quote"]}))
}

pub fn check_migrate(pre: &World, post: &World, msg: &Value, out: &Outcome, st: &mut Stats, viols: &mut Vec<Viol>) {
    let stored = pre.item_raw("version_info").and_then(|v| v["version"].as_str().map(|x| x.to_string()));
    let ver = stored.as_deref().map_or(Ver::Malformed, parse_version);
    let valid = migrate_msg_valid(msg);
    // expectation on accept / refuse
    let (must_refuse, must_accept, vclass) = match &ver {
        Ver::Malformed => (true, false, "unreadable".to_string()),
        Ver::Clean(a, b, c) => {
            if !ver_ge((*a, *b, *c), MIN_SUPPORTED) {
                (true, false, "below-minimum".to_string())
            } else {
                let inwin = !ver_ge((*a, *b, *c), BID_FORMAT_CHANGE);
                (false, valid == Parse3::Yes, if inwin { "supported-before-format-change".to_string() } else { "supported-at-or-after-format-change".to_string() })
            }
        }
        Ver::Pre(a, b, c) => {
            if (*a, *b, *c) <= MIN_SUPPORTED {
                (true, false, "prerelease-below-minimum".to_string())
            } else {
                (false, false, "prerelease-gray".to_string())
            }
        }
    };
    let mask: String = ["approvers", "ask_fee_rate", "ask_fee_account", "bid_fee_rate", "bid_fee_account", "ask_required_attributes", "bid_required_attributes"]
        .iter()
        .map(|k| if msg.get(*k).map_or(true, |v| v.is_null()) { '0' } else { '1' })
        .collect();
    let pre_bids = pre.scan_raw("bid");
    let n_v2 = pre_bids.iter().filter(|(_, raw)| serde_json::from_slice::<Value>(raw).ok().and_then(|v| convert_v2(&v)).is_some()).count();
    let book_class = format!("asks:{}|v2:{}|v3:{}", pre.scan_raw("ask").len().min(3), n_v2.min(3), (pre_bids.len() - n_v2).min(3));
    st.eval("C14", format!("{}|msg:{:?}|{}|{}|{}", vclass, valid, mask, out.tag(), book_class));
    st.sample("C14", || json!({"stored_version": stored, "version_class": vclass, "migrate_msg": msg, "message_valid": format!("{:?}", valid), "observed": out.tag()}), 4);
    if out.is_ok() {
        st.count("C14", "accepted_migrations");
    } else {
        st.count("C14", "refused_migrations");
    }
    if must_refuse && out.is_ok() {
        viol(viols, "C14", "version-gate", &format!("migration accepted from a version that is {}", vclass), format!("stored version {:?}", stored));
    }
    if must_accept && !out.is_ok() {
        viol(viols, "C14", "version-gate", "migration from a supported version with a valid message refused", format!("stored version {:?} msg {} -> {:?}", stored, msg, out));
    }
    if !out.is_ok() {
        if pre.store != post.store {
            viol(viols, "C14", "refusal", "refused migration changed storage", String::new());
        }
        return;
    }
    // accepted: asks untouched
    if pre.scan_raw("ask") != post.scan_raw("ask") {
        viol(viols, "C14", "book-preserved", "migration changed an ask", format!("{:?} -> {:?}", pre.scan_raw("ask").iter().map(|x| String::from_utf8_lossy(&x.1).to_string()).collect::<Vec<_>>(), post.scan_raw("ask").iter().map(|x| String::from_utf8_lossy(&x.1).to_string()).collect::<Vec<_>>()));
    }
    // configuration = old + exactly the overrides
    match (read_cfg(pre), read_cfg(post)) {
        (Some(c0), Some(c1)) => {
            let exp = migrate_expected_cfg(&c0, msg);
            if exp != c1 && valid != Parse3::No {
                viol(viols, "C14", "overrides", "configuration after migration is not the old one with exactly the requested overrides", format!("expected {:?} got {:?}", exp, c1));
            }
            // a message the oracle calls invalid (e.g. a blank approver entry) need not be accepted; when it is,
            // a supplied approver list is still an override that must be applied exactly as supplied
            if valid == Parse3::No && msg.get("approvers").map_or(false, |a| a.is_array()) && exp.approvers != c1.approvers {
                viol(viols, "C14", "overrides", "approver list after migration is not the list supplied", format!("supplied {} got {:?}", msg["approvers"], c1.approvers));
            }
        }
        (a, b) => viol(viols, "C14", "overrides", "configuration unreadable around a migration", format!("{:?} {:?}", a.is_some(), b.is_some())),
    }
    let (name, version) = package_identity();
    if read_version(post) != Some((name.clone(), version.clone())) {
        viol(viols, "C14", "version-stamp", "version record after migration is not the current package version", format!("expected ({}, {}) got {:?}", name, version, read_version(post)));
    }
    if other_keys(pre) != other_keys(post) || other_keys(pre).iter().any(|k| pre.store.data.get(k) != post.store.data.get(k)) {
        viol(viols, "C14", "book-preserved", "migration wrote outside the book and the two records", String::new());
    }
    if !ledger_delta(pre, post).is_empty() {
        viol(viols, "C14", "book-preserved", "migration moved funds", format!("{:?}", ledger_delta(pre, post)));
    }
    // idempotence
    {
        let mut again = post.clone();
        let _ = again.apply(&Op::Migrate { msg: msg.clone() });
        if again.store != post.store {
            viol(viols, "C14", "idempotence", "applying the same migration a second time changed something", String::new());
        }
        st.count("C14", "second_migrations_checked");
    }
    // C15: bids
    let post_bids: BTreeMap<String, Vec<u8>> = post.scan_raw("bid").into_iter().collect();
    let pre_map: BTreeMap<String, Vec<u8>> = pre_bids.iter().cloned().collect();
    let in_window = matches!(&ver, Ver::Clean(a, b, c) if ver_ge((*a, *b, *c), MIN_SUPPORTED) && !ver_ge((*a, *b, *c), BID_FORMAT_CHANGE));
    let gray = matches!(&ver, Ver::Pre(..));
    // A pre-release whose release triple lies strictly inside the window (0.17.0-beta.2, 0.18.2-rc.1) is a
    // version that stored bids with an event log. Whether migrating from it is supported is not stated (the
    // pinned tree refuses), but an ACCEPTED migration from it must not lose those bids: they are converted.
    // A pre-release of the format-change version itself may convert or leave alone, never anything else; a
    // pre-release of a later version is at or after the format change.
    let pre_inside = matches!(&ver, Ver::Pre(a, b, c) if ver_ge((*a, *b, *c), MIN_SUPPORTED) && !ver_ge((*a, *b, *c), BID_FORMAT_CHANGE));
    let pre_at_change = matches!(&ver, Ver::Pre(a, b, c) if (*a, *b, *c) == BID_FORMAT_CHANGE);
    let in_window = in_window || pre_inside;
    if pre_map.keys().collect::<Vec<_>>() != post_bids.keys().collect::<Vec<_>>() {
        viol(viols, "C15", "conversion", "a bid was lost or invented by migration", format!("{:?} -> {:?}", pre_map.keys().collect::<Vec<_>>(), post_bids.keys().collect::<Vec<_>>()));
    }
    for (k, raw) in &pre_map {
        let after = match post_bids.get(k) {
            Some(a) => a,
            None => continue,
        };
        let v: Option<Value> = serde_json::from_slice(raw).ok();
        let conv = v.as_ref().and_then(convert_v2);
        match conv {
            Some(exp) if in_window => {
                let n_events = v.as_ref().and_then(|x| x["events"].as_array().map(|a| a.len())).unwrap_or(0);
                let kinds: String = v.as_ref().and_then(|x| x["events"].as_array().map(|a| {
                    let mut s: Vec<char> = a.iter().filter_map(|e| e["action"].as_object().and_then(|o| o.keys().next().map(|k| k.chars().nth(2).unwrap_or('?')))).collect();
                    s.sort();
                    s.dedup();
                    s.into_iter().collect()
                })).unwrap_or_default();
                st.eval("C15", format!("converted|events:{}|kinds:{}|fee:{}|{}", n_events.min(6), kinds, !exp["fee"].is_null(), vclass));
                st.count("C15", "old_format_bids_converted");
                if n_events >= 2 {
                    st.sample("C15", || json!({"old_format_bid": v, "expected_current_format": exp, "stored_after_migration": serde_json::from_slice::<Value>(after).ok()}), 3);
                }
                st.count_n("C15", "events_summed", n_events as u64);
                let got: Option<Value> = serde_json::from_slice(after).ok();
                if got.as_ref() != Some(&exp) {
                    viol(viols, "C15", "conversion", "converted bid differs from the original amounts minus the sums over its events", format!("old {} ; expected {} ; got {:?}", String::from_utf8_lossy(raw), exp, got));
                }
            }
            Some(exp) if gray && pre_at_change => {
                st.eval("C15", format!("old-format-at-prerelease-of-the-change|{}", vclass));
                let got: Option<Value> = serde_json::from_slice(after).ok();
                if after != raw && got.as_ref() != Some(&exp) {
                    viol(viols, "C15", "conversion", "old-format bid neither converted nor left alone by an accepted migration", format!("old {} ; got {:?}", String::from_utf8_lossy(raw), got));
                }
            }
            Some(_) => {
                st.eval("C15", format!("old-format-outside-window|{}", vclass));
                if after != raw {
                    viol(viols, "C15", "conversion", "a bid was rewritten when migrating from a version at or after the format change", format!("{} -> {}", String::from_utf8_lossy(raw), String::from_utf8_lossy(after)));
                }
            }
            None => {
                st.eval("C15", format!("current-format-untouched|{}", vclass));
                st.count("C15", "current_format_bids_checked");
                if after != raw {
                    viol(viols, "C15", "conversion", "a bid already in the current format was changed by migration", format!("{} -> {}", String::from_utf8_lossy(raw), String::from_utf8_lossy(after)));
                }
            }
        }
    }
}

// ------------------------------------------------------------------------------------------------
/// records, per bid, the fill / refund / reject events an old contract version would have logged,
/// with the amounts actually observed
pub fn record_bid_events(events: &mut BTreeMap<String, Vec<Value>>, pre: &Book, post: &Book, op: &Op, out: &Outcome) {
    let (kind, body) = match op {
        Op::Exec { msg, .. } => crate::mon::msg_body(msg),
        _ => return,
    };
    if !out.is_ok() {
        return;
    }
    let bid_id = match kind {
        "execute_match" => body["bid_id"].as_str(),
        "reject_bid" | "expire_bid" | "cancel_bid" => body["id"].as_str(),
        "create_bid" => {
            if let Some(id) = body["id"].as_str() {
                events.remove(id);
            }
            None
        }
        _ => None,
    };
    let bid_id = match bid_id {
        Some(b) => b.to_string(),
        None => return,
    };
    let (p, q) = match (pre.bids.get(&bid_id), post.bids.get(&bid_id)) {
        (Some(p), Some(q)) => (p, q),
        _ => {
            events.remove(&bid_id);
            return;
        }
    };
    let coinj = |a: u128, d: &str| json!({"amount": a.to_string(), "denom": d});
    let feej = |a: u128| if a > 0 { coinj(a, &p.quote_denom) } else { Value::Null };
    let blk = json!({"height": 12345, "time": "1571797419879305533"});
    let (db, dq, df) = (q.acc_base.saturating_sub(p.acc_base), q.acc_quote.saturating_sub(p.acc_quote), q.acc_fee.saturating_sub(p.acc_fee));
    if kind == "execute_match" {
        let price = body["price"].as_str().unwrap_or("");
        let gross = crate::exact::parse_dec(price).and_then(|x| x.mul_int(db)).unwrap_or(dq);
        let bid_fee: u128 = out.attr("bid_fee").and_then(|x| x.parse().ok()).unwrap_or(0).min(df);
        events.entry(bid_id.clone()).or_default().push(json!({"action": {"Fill": {"base": coinj(db, &p.base_denom), "fee": feej(bid_fee), "price": price, "quote": coinj(gross.min(dq), &p.quote_denom)}}, "block_info": blk}));
        let rq = dq - gross.min(dq);
        let rf = df - bid_fee;
        if rq > 0 || rf > 0 {
            events.entry(bid_id).or_default().push(json!({"action": {"Refund": {"fee": feej(rf), "quote": coinj(rq, &p.quote_denom)}}, "block_info": blk}));
        }
    } else {
        events.entry(bid_id).or_default().push(json!({"action": {"Reject": {"base": coinj(db, &p.base_denom), "fee": feej(df), "quote": coinj(dq, &p.quote_denom)}}, "block_info": blk}));
    }
}

pub const VERSIONS_IN_WINDOW: &[&str] = &["0.16.2", "0.16.3", "0.17.0", "0.18.2", "0.19.0", "0.19.0+build.5"];
pub const VERSIONS_AFTER: &[&str] = &["0.19.1", "0.19.2", "0.20.0", "1.0.0", "2.3.4", "1.0.0+meta"];
pub const VERSIONS_OLD: &[&str] = &["0.16.1", "0.15.9", "0.15.0", "0.14.9", "0.1.0", "0.0.0", "0.16.2-rc1"];
pub const VERSIONS_BAD: &[&str] = &["", "1.0", "v1.0.0", "1.0.0.0", "abc", "01.2.3", "1.2.x", " 1.0.0"];
pub const VERSIONS_GRAY: &[&str] = &["0.19.1-rc1", "1.0.0-alpha", "0.17.0-beta.2", "0.18.2-rc.1", "0.19.0-rc.2", "0.16.3-alpha+b1"];

pub fn version_op(ver: &str) -> Op {
    Op::PutRaw { key: b"version_info".to_vec(), value: Some(serde_json::to_vec(&json!({"definition": "ats_smart_contract", "version": ver})).unwrap()) }
}

pub fn gen_migrate_msg(r: &mut Rng, pool: &[String]) -> Value {
    let mut m = serde_json::Map::new();
    if r.chance(30) {
        m.insert("approvers".into(), json!(match r.below(4) { 0 => vec![], 1 => vec![r.pick(pool).clone()], 2 => vec![r.pick(pool).clone(), r.pick(pool).clone()], _ => vec!["X".to_string()] }));
    }
    for side in ["ask", "bid"] {
        if r.chance(30) {
            let (rate, acct): (Option<&str>, Option<String>) = match r.below(8) {
                0 => (Some(""), Some(String::new())),
                7 => (Some("0.020000000000000000000000000000"), Some(r.pick(pool).clone())),
                1 => (Some("0.02"), Some(r.pick(pool).clone())),
                2 => (Some("0.02"), None),
                3 => (None, Some(r.pick(pool).clone())),
                4 => (Some("abc"), Some(r.pick(pool).clone())),
                5 => (Some("0.5"), Some("NO".into())),
                _ => (Some(r.pick_s(RATES)), Some(r.pick(pool).clone())),
            };
            if let Some(x) = rate {
                m.insert(format!("{}_fee_rate", side), json!(x));
            }
            if let Some(x) = acct {
                m.insert(format!("{}_fee_account", side), json!(x));
            }
        }
    }
    if r.chance(25) {
        m.insert("ask_required_attributes".into(), json!(if r.chance(50) { vec!["kyc"] } else { vec![] }));
    }
    if r.chance(25) {
        m.insert("bid_required_attributes".into(), json!(if r.chance(50) { vec!["acc"] } else { vec![] }));
    }
    Value::Object(m)
}

/// W5: real history -> rewrite a subset of its bids in the old event-log format -> stamp a version
/// -> migrate -> (round trip) storage must equal the original byte for byte -> continue trading.
pub fn run_migration_history(seed: u64, opts: &Opts, st: &mut Stats) -> History {
    let mut r = Rng::new(seed ^ 0x4D49_4752);
    let rg = if r.chance(30) { GRIND } else { TRADE };
    let mut hist = History::new(&format!("migration#{}", seed), seed);
    let cfg = gen_cfg(&mut r, &rg);
    for op in setup_ops(&mut r, &cfg) {
        if !hist.step(op, opts, st).is_ok() {
            hist.finish(opts, st);
            return hist;
        }
    }
    let mut g = GenState { next_id: 0, id_base: (seed % 1_000_000) * 10_000 };
    let mut events: BTreeMap<String, Vec<Value>> = BTreeMap::new();
    let steps = r.range(15, 70);
    let mut last: Option<Op> = None;
    for _ in 0..steps {
        if hist.stopped {
            break;
        }
        // now and then the request just made is sent once more, unchanged (two equal fills in one block
        // leave two identical consecutive entries in an old-format log)
        let op = match &last {
            Some(l) if r.chance(8) => l.clone(),
            _ => gen_step(&mut r, &rg, &hist.w, &mut g),
        };
        let pre = Book::read(&hist.w);
        let out = hist.step(op.clone(), opts, st);
        let post = Book::read(&hist.w);
        record_bid_events(&mut events, &pre, &post, &op, &out);
        last = if matches!(op, Op::Exec { .. }) { Some(op) } else { None };
    }
    if hist.stopped {
        hist.finish(opts, st);
        return hist;
    }
    let original = hist.w.clone();
    // rewrite a random subset of the bids in the old format
    let book = Book::read(&hist.w);
    let mut rewritten = 0;
    for (id, b) in &book.bids {
        if r.chance(25) {
            continue;
        }
        let ev = events.get(id).cloned().unwrap_or_default();
        let v2 = json!({"base": b.raw["base"], "events": ev, "fee": b.raw["fee"], "id": b.raw["id"], "owner": b.raw["owner"], "price": b.raw["price"], "quote": b.raw["quote"]});
        hist.step(Op::PutRaw { key: map_key("bid", id), value: Some(serde_json::to_vec(&v2).unwrap()) }, opts, st);
        rewritten += 1;
    }
    let class = r.below(100);
    let ver: &str = if class < 55 { r.pick_s(VERSIONS_IN_WINDOW) } else if class < 70 { r.pick_s(VERSIONS_AFTER) } else if class < 85 { r.pick_s(VERSIONS_OLD) } else if class < 93 { r.pick_s(VERSIONS_BAD) } else { r.pick_s(VERSIONS_GRAY) };
    hist.step(version_op(ver), opts, st);
    if r.chance(25) {
        // a configuration request against the not-yet-migrated state (refused below the minimum version)
        let ex = read_cfg(&hist.w).and_then(|c| c.executors.first().cloned()).unwrap_or_else(|| "exec1".into());
        // (re-installs the current approver list, so an accepted request leaves the state as it was)
        let cur = read_cfg(&hist.w).map(|c| c.approvers).unwrap_or_default();
        if !cur.is_empty() {
            hist.step(Op::Exec { sender: ex, funds: vec![], msg: json!({"modify_contract": {"approvers": cur}}) }, opts, st);
        }
    }
    let msg = if r.chance(55) { json!({}) } else { gen_migrate_msg(&mut r, &cfg.pool) };
    let plain = msg.as_object().map_or(false, |o| o.is_empty());
    let out = hist.step(Op::Migrate { msg }, opts, st);
    // the bookkeeping kept beside the book (per-order escrow ledger, attribute-driven shadow book) continues
    // from what the history REALLY produced, not from what the conversion wrote
    if out.is_ok() && VERSIONS_IN_WINDOW.contains(&ver) && Book::read(&hist.w).odd_bids.is_empty() && Book::read(&hist.w).odd_asks.is_empty() {
        hist.h.resync(&original);
    }
    // round trip: with no overrides and a version inside the window the migrated storage must be
    // the original, byte for byte (the original version record is the current package version)
    if out.is_ok() && plain && VERSIONS_IN_WINDOW.contains(&ver) {
        st.eval("C15", format!("roundtrip|rewritten:{}|events:{}", rewritten.min(5), events.values().map(|v| v.len()).sum::<usize>().min(8)));
        st.count("C15", "roundtrips_compared_byte_for_byte");
        if hist.w.store != original.store {
            let mut diff = String::new();
            for (k, v) in &original.store.data {
                if hist.w.store.data.get(k) != Some(v) {
                    diff = format!("key {} original {} migrated {:?}", String::from_utf8_lossy(k), String::from_utf8_lossy(v), hist.w.store.data.get(k).map(|x| String::from_utf8_lossy(x).to_string()));
                    break;
                }
            }
            let idx = hist.ops.len() - 1;
            hist.found.push(Found { viol: Viol { prop: "C15", monitor: "round-trip", sig: "migrated storage differs from the state the history really produced".into(), detail: diff, kf: None, probe: None }, step: idx });
            if opts.focus == "C15" {
                hist.stopped = true;
            }
        }
    }
    // continuation on the migrated book with every monitor on (a converted bid behaves like a native one)
    if out.is_ok() && Book::read(&hist.w).odd_bids.is_empty() {
        let n = r.range(10, 40);
        for _ in 0..n {
            if hist.stopped {
                break;
            }
            let op = gen_step(&mut r, &rg, &hist.w, &mut g);
            hist.step(op, opts, st);
        }
        st.count("C15", "continuations_run");
        // native twin: the same continuation on the never-converted state must behave identically
        if plain && VERSIONS_IN_WINDOW.contains(&ver) {
            // storage equality was established above; identical state + deterministic code => identical
            // continuation, so the twin run adds nothing and is not repeated here.
        }
    }
    hist.finish(opts, st);
    hist
}

/// random (not history-derived) event logs: the three sums against an independent summation
pub fn run_random_logs(seed: u64, opts: &Opts, st: &mut Stats) -> History {
    let mut r = Rng::new(seed ^ 0x4C4F_4753);
    let mut hist = History::new(&format!("random-logs#{}", seed), seed);
    let cfg = gen_cfg(&mut r, &TRADE);
    for op in setup_ops(&mut r, &cfg) {
        if !hist.step(op, opts, st).is_ok() {
            hist.finish(opts, st);
            return hist;
        }
    }
    let coinj = |a: u128, d: &str| json!({"amount": a.to_string(), "denom": d});
    let n = r.range(1, 6);
    for i in 0..n {
        let id = if r.chance(30) { uuid(seed.wrapping_mul(100).wrapping_add(i)).replace('-', "") } else { uuid(seed.wrapping_mul(100).wrapping_add(i)) };
        let with_fee = r.chance(60);
        let nev = r.below(7);
        let mut evs = vec![];
        for _ in 0..nev {
            let fee = if with_fee && r.chance(70) { coinj(r.below(50) as u128, "q0") } else { Value::Null };
            let big = if r.chance(10) { 1u128 << 90 } else { 1 };
            let e = match r.below(3) {
                0 => json!({"Fill": {"base": coinj(r.below(100) as u128 * big, "base"), "fee": fee, "price": "2", "quote": coinj(r.below(1000) as u128 * big, "q0")}}),
                1 => json!({"Refund": {"fee": fee, "quote": coinj(r.below(1000) as u128, "q0")}}),
                _ => json!({"Reject": {"base": coinj(r.below(100) as u128, "base"), "fee": fee, "quote": coinj(r.below(1000) as u128, "q0")}}),
            };
            evs.push(json!({"action": e, "block_info": {"height": r.below(1000000), "time": "1571797419879305533"}}));
            // two equal operations in one block leave two identical consecutive entries
            while r.chance(20) {
                let last = evs.last().cloned().unwrap();
                evs.push(last);
            }
        }
        let v = if r.chance(80) {
            json!({"base": coinj(1u128 << 100, "base"), "events": evs, "fee": if with_fee { coinj(1u128 << 99, "q0") } else { Value::Null }, "id": id, "owner": r.pick(&cfg.pool), "price": "2", "quote": coinj(1u128 << 101, "q0")})
        } else {
            json!({"base": coinj(100, "base"), "accumulated_base": "10", "accumulated_quote": "20", "accumulated_fee": "0", "fee": Value::Null, "id": id, "owner": r.pick(&cfg.pool), "price": "2", "quote": coinj(200, "q0")})
        };
        hist.step(Op::PutRaw { key: map_key("bid", &id), value: Some(serde_json::to_vec(&v).unwrap()) }, opts, st);
    }
    let class = r.below(100);
    let ver: &str = if class < 60 { r.pick_s(VERSIONS_IN_WINDOW) } else if class < 80 { r.pick_s(VERSIONS_AFTER) } else if class < 90 { r.pick_s(VERSIONS_OLD) } else { r.pick_s(VERSIONS_BAD) };
    hist.step(version_op(ver), opts, st);
    let msg = if r.chance(50) { json!({}) } else { gen_migrate_msg(&mut r, &cfg.pool) };
    hist.step(Op::Migrate { msg }, opts, st);
    hist.finish(opts, st);
    hist
}
