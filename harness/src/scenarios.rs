// W0: scripted histories that by construction visit every class the coverage floors require,
// plus the regression scenarios for the defects repaired on the pinned tree (DESIGN section 7).
use crate::engine::*;
use crate::exact::parse_dec;
use crate::gen::uuid;
use crate::model::restricted;
use crate::sim::*;
use crate::stats::*;
use serde_json::{json, Value};

pub struct Script<'a> {
    pub hist: History,
    pub opts: &'a Opts,
    pub st: &'a mut Stats,
    pub expect_fail: Vec<String>,
}

pub struct Market {
    pub prec: u32,
    pub inc: u128,
    pub convs: Vec<&'static str>,
    pub quotes: Vec<&'static str>,
    pub approvers: Vec<&'static str>,
    pub executors: Vec<&'static str>,
    pub ask_fee: Option<(&'static str, &'static str)>, // (account, rate)
    pub bid_fee: Option<(&'static str, &'static str)>,
    pub ask_attrs: Vec<&'static str>,
    pub bid_attrs: Vec<&'static str>,
    pub markers: Vec<(&'static str, MarkerKind)>,
}
impl Default for Market {
    fn default() -> Self {
        Market { prec: 0, inc: 1, convs: vec!["conv0"], quotes: vec!["q0"], approvers: vec!["appr1"], executors: vec!["exec1"], ask_fee: None, bid_fee: None, ask_attrs: vec![], bid_attrs: vec![], markers: vec![] }
    }
}

impl<'a> Script<'a> {
    pub fn new(label: &str, opts: &'a Opts, st: &'a mut Stats) -> Script<'a> {
        Script { hist: History::new(&format!("W0:{}", label), 7), opts, st, expect_fail: vec![] }
    }
    pub fn op(&mut self, op: Op, want_ok: bool) -> Outcome {
        if self.hist.stopped {
            return Outcome::Err("history stopped".into());
        }
        let o = self.hist.step(op.clone(), self.opts, self.st);
        if o.is_ok() != want_ok {
            self.expect_fail.push(format!("{}: step {} expected {} got {:?} : {}", self.hist.label, self.hist.ops.len() - 1, if want_ok { "ok" } else { "refusal" }, o, op.to_json()));
        }
        o
    }
    pub fn market(&mut self, m: &Market) {
        for (d, k) in &m.markers {
            self.op(Op::SetMarker { denom: d.to_string(), kind: *k }, true);
        }
        for a in ["alice", "bobby", "carol", "dave", "exec1", "appr1", "feea", "feeb"] {
            self.op(Op::SetAttrs { account: a.into(), names: vec!["kyc".into(), "acc".into()] }, true);
        }
        let msg = json!({
            "name": "ats", "base_denom": "base", "convertible_base_denoms": m.convs, "supported_quote_denoms": m.quotes,
            "approvers": m.approvers, "executors": m.executors,
            "ask_fee_rate": m.ask_fee.map(|x| x.1), "ask_fee_account": m.ask_fee.map(|x| x.0),
            "bid_fee_rate": m.bid_fee.map(|x| x.1), "bid_fee_account": m.bid_fee.map(|x| x.0),
            "ask_required_attributes": m.ask_attrs, "bid_required_attributes": m.bid_attrs,
            "price_precision": m.prec.to_string(), "size_increment": m.inc.to_string(),
        });
        self.op(Op::Inst { msg }, true);
    }
    fn funds(&self, denom: &str, amt: u128) -> Vec<(String, u128)> {
        if restricted(&self.hist.w, denom) {
            vec![]
        } else {
            vec![(denom.to_string(), amt)]
        }
    }
    pub fn exec(&mut self, sender: &str, funds: Vec<(String, u128)>, msg: Value, want_ok: bool) -> Outcome {
        self.op(Op::Exec { sender: sender.into(), funds, msg }, want_ok)
    }
    pub fn ask(&mut self, n: u64, owner: &str, base: &str, price: &str, size: u128) -> Outcome {
        let f = self.funds(base, size);
        self.exec(owner, f, json!({"create_ask": {"id": uuid(n), "base": base, "quote": "q0", "price": price, "size": size.to_string()}}), true)
    }
    pub fn bid(&mut self, n: u64, owner: &str, price: &str, size: u128) -> Outcome {
        let total = parse_dec(price).and_then(|p| p.mul_int(size)).unwrap_or(0);
        let fee = crate::view::read_cfg(&self.hist.w).and_then(|c| crate::model::bid_fee_due(&c, total)).unwrap_or(0);
        let feej = if fee > 0 { json!({"denom": "q0", "amount": fee.to_string()}) } else { Value::Null };
        let f = self.funds("q0", total + fee);
        self.exec(owner, f, json!({"create_bid": {"id": uuid(n), "base": "base", "fee": feej, "price": price, "quote": "q0", "quote_size": total.to_string(), "size": size.to_string()}}), true)
    }
    pub fn approve(&mut self, n: u64, approver: &str, size: u128) -> Outcome {
        let f = self.funds("base", size);
        self.exec(approver, f, json!({"approve_ask": {"id": uuid(n), "base": "base", "size": size.to_string()}}), true)
    }
    pub fn mtch(&mut self, a: u64, b: u64, price: &str, size: u128, want_ok: bool) -> Outcome {
        self.exec("exec1", vec![], json!({"execute_match": {"ask_id": uuid(a), "bid_id": uuid(b), "price": price, "size": size.to_string()}}), want_ok)
    }
    pub fn simple(&mut self, kind: &str, sender: &str, n: u64, size: Option<u128>, want_ok: bool) -> Outcome {
        let body = if kind.starts_with("reject") { json!({"id": uuid(n), "size": size.map(|s| s.to_string())}) } else { json!({"id": uuid(n)}) };
        self.exec(sender, vec![], json!({kind: body}), want_ok)
    }
    pub fn done(mut self) -> (History, Vec<String>) {
        self.hist.finish(self.opts, self.st);
        (self.hist, self.expect_fail)
    }
}

use MarkerKind::*;

pub fn all_scenarios(opts: &Opts, st: &mut Stats) -> Vec<(History, Vec<String>)> {
    let mut out = vec![];

    // S1: plain ask and bid, full and partial fills at both prices, no fees
    {
        let mut s = Script::new("plain-trading", opts, st);
        s.market(&Market { inc: 5, ..Default::default() });
        s.ask(1, "alice", "base", "10", 20);
        s.bid(2, "bobby", "12", 10);
        s.mtch(1, 2, "10", 5, true);
        s.mtch(1, 2, "12", 5, true);
        s.bid(3, "carol", "10", 30);
        s.mtch(1, 3, "10.0", 10, true);
        s.simple("reject_bid", "exec1", 3, Some(5), true);
        s.simple("cancel_bid", "carol", 3, None, true);
        s.ask(4, "alice", "base", "3", 10);
        s.simple("reject_ask", "exec1", 4, Some(5), true);
        s.simple("expire_ask", "exec1", 4, None, true);
        s.ask(5, "dave", "base", "7", 5);
        s.simple("cancel_ask", "dave", 5, None, true);
        s.bid(6, "dave", "7", 5);
        s.simple("expire_bid", "exec1", 6, None, true);
        out.push(s.done());
    }
    // S2: convertible ask, approval, fees on both sides, partial reject then cancel (F1 regression)
    {
        let mut s = Script::new("convertible-with-fees", opts, st);
        s.market(&Market { ask_fee: Some(("feea", "0.015")), bid_fee: Some(("feeb", "0.01")), ..Default::default() });
        s.ask(1, "alice", "conv0", "100", 10);
        s.mtch(1, 2, "100", 1, false);
        s.bid(2, "bobby", "110", 4);
        s.mtch(1, 2, "100", 1, false); // pending: must not match
        s.approve(1, "appr1", 10);
        s.mtch(1, 2, "100", 3, true); // improved price, fee refund
        s.simple("reject_ask", "exec1", 1, Some(4), true);
        s.mtch(1, 2, "110", 1, true);
        s.simple("cancel_ask", "alice", 1, None, true);
        s.ask(3, "carol", "conv0", "5", 6);
        s.approve(3, "appr1", 6);
        s.simple("reject_ask", "exec1", 3, Some(2), true);
        s.simple("expire_ask", "exec1", 3, None, true);
        out.push(s.done());
    }
    // S3: F2 regression - final improved fill whose own fee rounds to zero
    {
        let mut s = Script::new("fee-refund-when-fill-fee-rounds-to-zero", opts, st);
        s.market(&Market { bid_fee: Some(("feeb", "0.01")), ..Default::default() });
        s.bid(1, "bobby", "10", 10);
        s.ask(2, "alice", "base", "4", 10);
        s.mtch(2, 1, "4", 10, true);
        out.push(s.done());
    }
    // S4: F3 regression - non-lot fill leaves a remainder that must still be cancellable / expirable
    {
        let mut s = Script::new("non-lot-remainder-exits", opts, st);
        s.market(&Market { inc: 10, ..Default::default() });
        s.bid(1, "bobby", "2", 20);
        s.ask(2, "alice", "base", "2", 20);
        s.mtch(2, 1, "2", 15, true);
        s.bid(3, "carol", "2", 20);
        s.ask(4, "dave", "base", "2", 20);
        s.mtch(4, 3, "2", 7, true);
        s.simple("expire_ask", "exec1", 4, None, true);
        s.simple("expire_bid", "exec1", 3, None, true);
        s.simple("cancel_bid", "bobby", 1, None, true);
        s.simple("expire_ask", "exec1", 2, None, true);
        out.push(s.done());
    }
    // S5: F4 regression + every marker mechanism: restricted base with unrestricted convertible and v.v.
    for (i, (mb, mc, mq)) in [(Restricted, Coin, NoMarker), (Coin, Restricted, Restricted), (Restricted, Restricted, Coin), (NoMarker, NoMarker, Restricted)].iter().enumerate() {
        let mut s = Script::new(&format!("marker-mix-{}", i), opts, st);
        s.market(&Market { ask_fee: Some(("feea", "0.1")), bid_fee: Some(("feeb", "0.05")), markers: vec![("base", *mb), ("conv0", *mc), ("q0", *mq)], ..Default::default() });
        s.ask(1, "alice", "conv0", "20", 10);
        s.approve(1, "appr1", 10);
        s.bid(2, "bobby", "25", 8);
        s.mtch(1, 2, "20", 3, true);
        s.mtch(1, 2, "25", 1, true);
        s.simple("reject_bid", "exec1", 2, Some(1), true);
        s.simple("reject_ask", "exec1", 1, Some(2), true);
        s.ask(3, "carol", "base", "25", 4);
        s.mtch(3, 2, "25", 1, true);
        s.simple("cancel_bid", "bobby", 2, None, true);
        s.simple("cancel_ask", "alice", 1, None, true);
        s.simple("expire_ask", "exec1", 3, None, true);
        out.push(s.done());
    }
    // S6: F5 regression - ask fee consumes the whole proceeds (rate 1; rate 0.5 on a total of 1)
    for (i, mq) in [NoMarker, Restricted].iter().enumerate() {
        let mut s = Script::new(&format!("ask-fee-equals-proceeds-{}", i), opts, st);
        s.market(&Market { ask_fee: Some(("feea", "1")), markers: vec![("q0", *mq)], ..Default::default() });
        s.ask(1, "alice", "base", "3", 5);
        s.bid(2, "bobby", "3", 5);
        s.mtch(1, 2, "3", 2, true);
        s.ask(3, "carol", "conv0", "3", 2);
        s.approve(3, "appr1", 2);
        s.mtch(3, 2, "3", 2, true);
        s.exec("exec1", vec![], json!({"modify_contract": {"approvers": ["appr1", "dave"]}}), true);
        out.push(s.done());
    }
    {
        let mut s = Script::new("ask-fee-half-of-one", opts, st);
        s.market(&Market { ask_fee: Some(("feea", "0.5")), ..Default::default() });
        s.ask(1, "alice", "base", "1", 3);
        s.bid(2, "bobby", "1", 3);
        s.mtch(1, 2, "1", 1, true);
        s.mtch(1, 2, "1", 2, true);
        out.push(s.done());
    }
    // S7: F6 regression - over-long price strings must not be admitted or accepted as execution price
    {
        let mut s = Script::new("overlong-price-strings", opts, st);
        s.market(&Market::default());
        let long = "21.000000000000000000000000000001";
        s.exec("bobby", vec![("q0".into(), 105)], json!({"create_bid": {"id": uuid(1), "base": "base", "fee": null, "price": long, "quote": "q0", "quote_size": "105", "size": "5"}}), false);
        s.exec("alice", vec![("base".into(), 5)], json!({"create_ask": {"id": uuid(2), "base": "base", "quote": "q0", "price": long, "size": "5"}}), false);
        s.ask(3, "alice", "base", "21", 5);
        s.bid(4, "bobby", "21", 5);
        s.mtch(3, 4, long, 5, false);
        s.mtch(3, 4, "21.00", 5, true);
        out.push(s.done());
    }
    // S8: configuration changes against each book state
    {
        let mut s = Script::new("configuration-changes", opts, st);
        s.market(&Market { ask_fee: Some(("feea", "0.01")), bid_fee: Some(("feeb", "0.02")), ..Default::default() });
        let m = |v: Value| json!({ "modify_contract": v });
        s.exec("exec1", vec![], m(json!({"approvers": ["appr1", "carol"], "executors": ["exec1", "dave"]})), true);
        s.exec("exec1", vec![], m(json!({"ask_fee_rate": "0.02", "ask_fee_account": "feeb", "ask_required_attributes": ["kyc"]})), true);
        s.exec("exec1", vec![], m(json!({"bid_fee_rate": "", "bid_fee_account": ""})), true);
        s.exec("exec1", vec![], m(json!({"bid_fee_rate": "0.02", "bid_fee_account": "feeb", "bid_required_attributes": ["acc"]})), true);
        s.exec("exec1", vec![], m(json!({"approvers": []})), false);
        s.exec("exec1", vec![], m(json!({"executors": []})), false);
        s.exec("exec1", vec![], m(json!({"ask_fee_rate": "0.5"})), false);
        s.exec("alice", vec![], m(json!({"approvers": ["alice"]})), false);
        s.ask(1, "alice", "base", "10", 10);
        s.exec("exec1", vec![], m(json!({"ask_fee_rate": "0.020", "ask_fee_account": "feea"})), true); // same rate, other account
        s.exec("exec1", vec![], m(json!({"ask_fee_rate": "0.03", "ask_fee_account": "feea"})), false);
        s.exec("exec1", vec![], m(json!({"ask_required_attributes": []})), false);
        s.exec("exec1", vec![], m(json!({"approvers": ["carol"]})), false); // drops appr1 while an order is open
        s.exec("exec1", vec![], m(json!({"approvers": ["carol", "appr1", "bobby"]})), true);
        s.exec("exec1", vec![], m(json!({"bid_fee_rate": "0.04", "bid_fee_account": "feeb"})), true); // no bids open
        s.bid(2, "bobby", "10", 10);
        s.exec("exec1", vec![], m(json!({"bid_fee_rate": "0.05", "bid_fee_account": "feeb"})), false);
        s.exec("exec1", vec![], m(json!({"bid_required_attributes": ["kyc"]})), false);
        s.mtch(1, 2, "10", 10, true);
        s.exec("exec1", vec![], m(json!({"bid_fee_rate": "0.05", "bid_fee_account": "feea", "ask_fee_rate": "", "ask_fee_account": ""})), true); // both sides empty again
        s.exec("exec1", vec![], m(json!({"executors": ["dave"]})), true);
        s.exec("exec1", vec![], m(json!({"executors": ["exec1"]})), false); // exec1 no longer an executor
        out.push(s.done());
    }
    // S9: bids with fees ground down by partial fills, refunds and partial rejects; required attributes
    {
        let mut s = Script::new("fee-grinding", opts, st);
        s.market(&Market { bid_fee: Some(("feeb", "0.33")), ask_fee: Some(("feea", "0.25")), ask_attrs: vec!["kyc"], bid_attrs: vec!["kyc", "acc"], ..Default::default() });
        s.bid(1, "bobby", "7", 9);
        s.ask(2, "alice", "base", "3", 20);
        s.mtch(2, 1, "3", 1, true);
        s.mtch(2, 1, "7", 2, true);
        s.simple("reject_bid", "exec1", 1, Some(1), true);
        s.mtch(2, 1, "3", 3, true);
        s.simple("reject_bid", "exec1", 1, None, true);
        s.exec("noattr", vec![("base".into(), 1)], json!({"create_ask": {"id": uuid(9), "base": "base", "quote": "q0", "price": "1", "size": "1"}}), false);
        s.bid(3, "carol", "1", 1);
        s.mtch(2, 3, "1", 1, false); // ask 3 > bid 1
        s.simple("cancel_bid", "carol", 3, None, true);
        out.push(s.done());
    }
    // S10: legacy un-hyphenated ids on the exit paths
    {
        let mut s = Script::new("legacy-ids", opts, st);
        s.market(&Market { bid_fee: Some(("feeb", "0.1")), ..Default::default() });
        s.ask(1, "alice", "base", "2", 10);
        s.bid(2, "bobby", "2", 10);
        s.ask(3, "carol", "conv0", "2", 4);
        s.approve(3, "appr1", 4);
        s.bid(4, "dave", "3", 5);
        let mut r = crate::rng::Rng::new(1);
        let mut ops = vec![];
        for _ in 0..8 {
            ops = legacy_rekey_ops(&s.hist.w, &mut r);
            if ops.len() >= 6 {
                break;
            }
        }
        for op in ops {
            s.op(op, true);
        }
        let b = crate::view::Book::read(&s.hist.w);
        for (id, a) in b.asks.clone() {
            if !crate::model::canon_uuid(&id) {
                s.exec("exec1", vec![], json!({"reject_ask": {"id": id, "size": "1"}}), true);
                s.exec(&a.owner, vec![], json!({"cancel_ask": {"id": id}}), true);
            }
        }
        for (id, x) in b.bids.clone() {
            if !crate::model::canon_uuid(&id) {
                s.exec("exec1", vec![], json!({"reject_bid": {"id": id, "size": "2"}}), true);
                s.exec(&x.owner, vec![], json!({"cancel_bid": {"id": id}}), true);
            }
        }
        out.push(s.done());
    }
    // S11: roles coinciding on one account (owner = approver = executor = fee account)
    {
        let mut s = Script::new("coinciding-roles", opts, st);
        s.market(&Market { approvers: vec!["exec1"], ask_fee: Some(("exec1", "0.1")), bid_fee: Some(("exec1", "0.1")), ..Default::default() });
        s.ask(1, "exec1", "conv0", "10", 10);
        s.approve(1, "exec1", 10);
        s.bid(2, "exec1", "12", 10);
        s.mtch(1, 2, "10", 4, true);
        s.simple("reject_ask", "exec1", 1, Some(2), true);
        s.mtch(1, 2, "12", 4, true);
        s.simple("cancel_bid", "exec1", 2, None, true);
        out.push(s.done());
    }
    // S13: the contract base also listed as a convertible denomination: asks in it are plain
    {
        let mut s = Script::new("base-listed-as-convertible", opts, st);
        s.market(&Market { convs: vec!["conv0", "base"], ask_fee: Some(("feea", "0.1")), ..Default::default() });
        s.ask(1, "alice", "base", "10", 10);
        s.bid(2, "bobby", "10", 10);
        s.mtch(1, 2, "10", 6, true);
        s.ask(3, "carol", "conv0", "10", 4);
        s.mtch(3, 2, "10", 4, false);
        s.approve(3, "appr1", 4);
        s.mtch(3, 2, "10", 4, true);
        s.simple("cancel_ask", "alice", 1, None, true);
        out.push(s.done());
    }
    // S14: exact half-unit ties of the pro-rata fee (F=2, Q=4: after one unit is spent F*r/Q = 1.5)
    {
        let mut s = Script::new("fee-ties", opts, st);
        s.market(&Market { bid_fee: Some(("feeb", "0.5")), ask_fee: Some(("feea", "0.5")), ..Default::default() });
        s.bid(1, "bobby", "1", 4);
        s.ask(2, "alice", "base", "1", 4);
        s.mtch(2, 1, "1", 1, true);
        s.simple("reject_bid", "exec1", 1, Some(1), true);
        s.mtch(2, 1, "1", 1, true);
        s.simple("cancel_bid", "bobby", 1, None, true);
        s.bid(3, "carol", "3", 2);
        s.mtch(2, 3, "1", 1, true);
        s.simple("expire_bid", "exec1", 3, None, true);
        out.push(s.done());
    }
    // S15: fee collection switched off by a migration while a fee-bearing bid is open
    {
        let mut s = Script::new("fee-switched-off-by-migration", opts, st);
        s.market(&Market { bid_fee: Some(("feeb", "0.1")), ask_fee: Some(("feea", "0.1")), ..Default::default() });
        s.bid(1, "bobby", "10", 10);
        s.ask(2, "alice", "base", "10", 10);
        s.mtch(2, 1, "10", 3, true);
        s.op(Op::Migrate { msg: json!({"bid_fee_rate": "", "bid_fee_account": ""}) }, true);
        s.mtch(2, 1, "10", 3, false); // the bid still carries a fee but there is no account to pay it to
        s.simple("reject_bid", "exec1", 1, Some(2), true);
        s.op(Op::Migrate { msg: json!({"bid_fee_rate": "0.1", "bid_fee_account": "carol", "ask_fee_rate": "", "ask_fee_account": ""}) }, true);
        s.mtch(2, 1, "10", 3, true);
        s.simple("cancel_bid", "bobby", 1, None, true);
        s.simple("expire_ask", "exec1", 2, None, true);
        out.push(s.done());
    }
    // S16: a fee-bearing bid stored in the old event-log format whose history has a fill AND a partial
    // reject that returned fee; converted by a migration, then filled, rejected and cancelled. The
    // bookkeeping beside the book continues from what the history really produced.
    {
        let mut s = Script::new("old-format-bid-with-fee-returning-reject", opts, st);
        s.market(&Market { bid_fee: Some(("feeb", "0.1")), ..Default::default() });
        s.bid(1, "bobby", "10", 10);
        s.ask(2, "alice", "base", "10", 10);
        s.mtch(2, 1, "10", 2, true);
        s.simple("reject_bid", "exec1", 1, Some(3), true);
        let original = s.hist.w.clone();
        let c = |a: u128, d: &str| json!({"amount": a.to_string(), "denom": d});
        let blk = json!({"height": 12345, "time": "1571797419879305533"});
        let v2 = json!({"base": c(10, "base"), "events": [
            {"action": {"Fill": {"base": c(2, "base"), "fee": c(2, "q0"), "price": "10", "quote": c(20, "q0")}}, "block_info": blk},
            {"action": {"Reject": {"base": c(3, "base"), "fee": c(3, "q0"), "quote": c(30, "q0")}}, "block_info": blk}],
            "fee": c(10, "q0"), "id": uuid(1), "owner": "bobby", "price": "10", "quote": c(100, "q0")});
        s.op(Op::PutRaw { key: map_key("bid", &uuid(1)), value: Some(serde_json::to_vec(&v2).unwrap()) }, true);
        s.op(crate::migrate::version_op("0.18.2"), true);
        if s.op(Op::Migrate { msg: json!({}) }, true).is_ok() {
            s.hist.h.resync(&original);
        }
        s.mtch(2, 1, "10", 2, true);
        s.simple("reject_bid", "exec1", 1, Some(1), true);
        s.simple("cancel_bid", "bobby", 1, None, true);
        s.simple("cancel_ask", "alice", 2, None, true);
        out.push(s.done());
    }
    // S17: an old-format bid filled twice by the same amount in one block (two identical consecutive
    // entries in its log); after the migration a match one above what really remains must be refused
    {
        let mut s = Script::new("old-format-bid-with-two-identical-fills", opts, st);
        s.market(&Market::default());
        s.bid(1, "bobby", "2", 10);
        s.ask(2, "alice", "base", "2", 20);
        s.mtch(2, 1, "2", 3, true);
        s.mtch(2, 1, "2", 3, true);
        let original = s.hist.w.clone();
        let c = |a: u128, d: &str| json!({"amount": a.to_string(), "denom": d});
        let blk = json!({"height": 100, "time": "1571797419879305533"});
        let fill = json!({"action": {"Fill": {"base": c(3, "base"), "fee": Value::Null, "price": "2", "quote": c(6, "q0")}}, "block_info": blk});
        let v2 = json!({"base": c(10, "base"), "events": [fill.clone(), fill], "fee": Value::Null, "id": uuid(1), "owner": "bobby", "price": "2", "quote": c(20, "q0")});
        s.op(Op::PutRaw { key: map_key("bid", &uuid(1)), value: Some(serde_json::to_vec(&v2).unwrap()) }, true);
        s.op(crate::migrate::version_op("0.19.0"), true);
        if s.op(Op::Migrate { msg: json!({}) }, true).is_ok() {
            s.hist.h.resync(&original);
        }
        s.mtch(2, 1, "2", 5, false);
        s.mtch(2, 1, "2", 4, true);
        s.simple("cancel_ask", "alice", 2, None, true);
        out.push(s.done());
    }
    // S18 (run for C16 only: the injected record breaks C08's and C01's state invariants by construction):
    // an approved ask as a release before fix F1 left it after a partial reject - size reduced, recorded
    // approver amount still the approved one. Queries must report the record as it is stored, and what a
    // cancel then pays must be what the query reported.
    if opts.focus == "C16" {
        let mut s = Script::new("legacy-approved-ask-with-stale-approver-amount", opts, st);
        s.market(&Market::default());
        s.ask(1, "alice", "conv0", "2", 100);
        s.approve(1, "appr1", 100);
        s.simple("reject_ask", "exec1", 1, Some(40), true);
        if let Some(raw) = s.hist.w.store.data.get(&map_key("ask", &uuid(1))).cloned() {
            let text = String::from_utf8_lossy(&raw).replace("\"amount\":\"60\"", "\"amount\":\"100\"");
            s.op(Op::PutRaw { key: map_key("ask", &uuid(1)), value: Some(text.into_bytes()) }, true);
        }
        // harmless accepted requests after which the query battery runs on the state
        for n in 10..22u64 {
            s.bid(n, "bobby", "1", 1);
            s.simple("cancel_bid", "bobby", n, None, true);
        }
        out.push(s.done());
    }
    // S12: KF1 - pro-rata quotient formed in 28-digit decimals, at amounts where fee x quote ~ 1e27+
    {
        let mut s = Script::new("kf1-large-amount-quotient", opts, st);
        s.market(&Market { prec: 0, inc: 1, bid_fee: Some(("feeb", "0.33")), ..Default::default() });
        crate::scenarios::kf1_script(&mut s);
        out.push(s.done());
    }
    out
}

/// fixed large-amount history exhibiting KF1, constructed with src/bin/kf1search.rs: Q (quote) and F
/// (fee at rate 0.33) with an unspent remainder r such that F*r/Q lies ~1e-16 above a half-unit
/// boundary; the contract's 28-digit quotient lands on the other side (held fee one unit low).
pub fn kf1_script(s: &mut Script) {
    let q: u128 = 8_976_991_766_744_273;
    let r: u128 = 997_443_529_638_247;
    s.bid(1, "bobby", "1", q);
    s.simple("reject_bid", "exec1", 1, Some(q - r), true);
    s.ask(2, "alice", "base", "1", 1000);
    s.mtch(2, 1, "1", 1000, true);
    s.simple("cancel_bid", "bobby", 1, None, true);
}
