// Chain simulator: storage, querier (per-denom markers, per-account attributes), ledger,
// atomic calls through the real entry points, trap capture. Requests arrive as JSON, as on chain.
use ats_smart_contract::contract::{execute, instantiate, migrate, query};
use ats_smart_contract::msg::{ExecuteMsg, InstantiateMsg, MigrateMsg, QueryMsg};
use cosmwasm_std::testing::{mock_env, MockApi, MOCK_CONTRACT_ADDR};
use cosmwasm_std::{
    from_slice, to_binary, Addr, BankMsg, Coin, ContractResult, CosmosMsg, Empty, MessageInfo,
    Order, OwnedDeps, Querier, QuerierResult, QueryRequest, Record, Response, Storage,
    SystemError, SystemResult, Uint128,
};
use prost::Message;
use provwasm_std::shim::Any;
use provwasm_std::types::cosmos::auth::v1beta1::BaseAccount;
use provwasm_std::types::provenance::attribute::v1::{
    Attribute, QueryAttributesRequest, QueryAttributesResponse,
};
use provwasm_std::types::provenance::marker::v1::{
    MarkerAccount, MsgTransferRequest, QueryMarkerRequest, QueryMarkerResponse,
};
use serde_json::{json, Value};
use std::collections::BTreeMap;
use std::marker::PhantomData;
use std::panic::{catch_unwind, AssertUnwindSafe};

pub const CONTRACT: &str = MOCK_CONTRACT_ADDR;
pub const ADMIN: &str = "admin";

#[derive(Clone, Default, Debug, PartialEq, Eq)]
pub struct Store {
    pub data: BTreeMap<Vec<u8>, Vec<u8>>,
}
impl Storage for Store {
    fn get(&self, key: &[u8]) -> Option<Vec<u8>> {
        self.data.get(key).cloned()
    }
    fn range<'a>(
        &'a self,
        start: Option<&[u8]>,
        end: Option<&[u8]>,
        order: Order,
    ) -> Box<dyn Iterator<Item = Record> + 'a> {
        use std::ops::Bound;
        if let (Some(a), Some(b)) = (start, end) {
            if a > b {
                return Box::new(std::iter::empty());
            }
        }
        let s = start.map_or(Bound::Unbounded, |x| Bound::Included(x.to_vec()));
        let e = end.map_or(Bound::Unbounded, |x| Bound::Excluded(x.to_vec()));
        let it = self.data.range((s, e)).map(|(k, v)| (k.clone(), v.clone()));
        match order {
            Order::Ascending => Box::new(it),
            Order::Descending => Box::new(it.rev()),
        }
    }
    fn set(&mut self, key: &[u8], value: &[u8]) {
        self.data.insert(key.to_vec(), value.to_vec());
    }
    fn remove(&mut self, key: &[u8]) {
        self.data.remove(key);
    }
}

#[derive(Clone, Copy, Debug, PartialEq, Eq, PartialOrd, Ord)]
pub enum MarkerKind {
    NoMarker,
    Coin,
    Restricted,
    /// a restricted marker whose lifecycle status is not Active (Finalized): still a restricted marker
    RestrictedFinalized,
    /// a restricted marker with every field the contract has no business looking at set to an unusual
    /// value (required attributes, fixed supply, forced transfer, no governance control, access grants)
    RestrictedGated,
    /// a coin marker with the same unusual values and a non-Active status: not a restricted marker
    CoinOdd,
    /// a marker of unspecified type (0): not a restricted marker
    Unspecified,
    /// the module answers, but with no marker in the response
    EmptyResponse,
    /// the module answers with something that is not a marker account
    Garbage,
}
impl MarkerKind {
    pub fn name(&self) -> &'static str {
        match self {
            MarkerKind::NoMarker => "none",
            MarkerKind::Coin => "coin",
            MarkerKind::Restricted => "restricted",
            MarkerKind::RestrictedFinalized => "restricted-finalized",
            MarkerKind::RestrictedGated => "restricted-gated",
            MarkerKind::CoinOdd => "coin-odd",
            MarkerKind::Unspecified => "unspecified-type",
            MarkerKind::EmptyResponse => "empty-response",
            MarkerKind::Garbage => "garbage",
        }
    }
    pub fn parse(s: &str) -> MarkerKind {
        match s {
            "coin" => MarkerKind::Coin,
            "restricted" => MarkerKind::Restricted,
            "restricted-finalized" => MarkerKind::RestrictedFinalized,
            "restricted-gated" => MarkerKind::RestrictedGated,
            "coin-odd" => MarkerKind::CoinOdd,
            "unspecified-type" => MarkerKind::Unspecified,
            "empty-response" => MarkerKind::EmptyResponse,
            "garbage" => MarkerKind::Garbage,
            _ => MarkerKind::NoMarker,
        }
    }
    pub fn short(&self) -> char {
        match self {
            MarkerKind::NoMarker => 'n',
            MarkerKind::Coin => 'c',
            MarkerKind::Restricted => 'R',
            MarkerKind::RestrictedFinalized => 'F',
            MarkerKind::RestrictedGated => 'A',
            MarkerKind::CoinOdd => 'o',
            MarkerKind::Unspecified => 'u',
            MarkerKind::EmptyResponse => 'e',
            MarkerKind::Garbage => 'g',
        }
    }
}

#[derive(Clone, Default, Debug)]
pub struct ChainQ {
    pub markers: BTreeMap<String, MarkerKind>,
    pub attrs: BTreeMap<String, Vec<String>>,
    pub attr_query_fails: bool,
}

impl Querier for ChainQ {
    fn raw_query(&self, bin_request: &[u8]) -> QuerierResult {
        let request: QueryRequest<Empty> = match from_slice(bin_request) {
            Ok(v) => v,
            Err(e) => {
                return SystemResult::Err(SystemError::InvalidRequest {
                    error: format!("Parsing query request: {}", e),
                    request: bin_request.into(),
                })
            }
        };
        match request {
            QueryRequest::Stargate { path, data } => {
                if path == "/provenance.marker.v1.Query/Marker" {
                    let req = match QueryMarkerRequest::decode(data.as_slice()) {
                        Ok(r) => r,
                        Err(e) => {
                            return SystemResult::Ok(ContractResult::Err(format!("decode: {}", e)))
                        }
                    };
                    let kind = self.markers.get(&req.id).copied().unwrap_or(MarkerKind::NoMarker);
                    match kind {
                        MarkerKind::NoMarker => SystemResult::Ok(ContractResult::Err(format!(
                            "marker {} not found",
                            req.id
                        ))),
                        MarkerKind::EmptyResponse => SystemResult::Ok(ContractResult::Ok(to_binary(&QueryMarkerResponse { marker: None }).unwrap())),
                        // (provwasm's `Any` cannot serialise an unknown payload, so this is answered like a
                        // module error)
                        MarkerKind::Garbage => SystemResult::Ok(ContractResult::Err("unexpected account type".into())),
                        MarkerKind::Coin | MarkerKind::Restricted | MarkerKind::RestrictedFinalized | MarkerKind::RestrictedGated | MarkerKind::CoinOdd | MarkerKind::Unspecified => {
                            let odd = matches!(kind, MarkerKind::RestrictedGated | MarkerKind::CoinOdd);
                            let m = MarkerAccount {
                                base_account: Some(BaseAccount {
                                    address: format!("marker_{}", req.id),
                                    pub_key: None,
                                    account_number: 10,
                                    sequence: 0,
                                }),
                                manager: if odd { "manager".into() } else { "".into() },
                                access_control: vec![],
                                status: if kind == MarkerKind::RestrictedFinalized || kind == MarkerKind::CoinOdd { 2 } else { 3 },
                                denom: req.id.clone(),
                                supply: if odd { "0".into() } else { "1000".into() },
                                marker_type: match kind { MarkerKind::Coin | MarkerKind::CoinOdd => 1, MarkerKind::Unspecified => 0, _ => 2 },
                                supply_fixed: odd,
                                allow_governance_control: !odd,
                                allow_forced_transfer: odd,
                                required_attributes: if odd { vec!["kyc.passed".into(), "acc".into()] } else { vec![] },
                            };
                            let resp = QueryMarkerResponse {
                                marker: Some(Any {
                                    type_url: "/provenance.marker.v1.MarkerAccount".into(),
                                    value: m.encode_to_vec(),
                                }),
                            };
                            SystemResult::Ok(ContractResult::Ok(to_binary(&resp).unwrap()))
                        }
                    }
                } else if path == "/provenance.attribute.v1.Query/Attributes" {
                    if self.attr_query_fails {
                        return SystemResult::Ok(ContractResult::Err(
                            "attribute module unavailable".into(),
                        ));
                    }
                    let req = match QueryAttributesRequest::decode(data.as_slice()) {
                        Ok(r) => r,
                        Err(e) => {
                            return SystemResult::Ok(ContractResult::Err(format!("decode: {}", e)))
                        }
                    };
                    let names = self.attrs.get(&req.account).cloned().unwrap_or_default();
                    let resp = QueryAttributesResponse {
                        account: req.account.clone(),
                        attributes: names
                            .into_iter()
                            .map(|n| Attribute {
                                name: n,
                                value: b"v".to_vec(),
                                attribute_type: 1,
                                address: req.account.clone(),
                            })
                            .collect(),
                        pagination: None,
                    };
                    SystemResult::Ok(ContractResult::Ok(to_binary(&resp).unwrap()))
                } else {
                    SystemResult::Err(SystemError::UnsupportedRequest { kind: path })
                }
            }
            _ => SystemResult::Err(SystemError::UnsupportedRequest { kind: "other".into() }),
        }
    }
}

/// A fund movement requested by the contract, decoded from its wire form.
#[derive(Clone, Debug, PartialEq)]
pub enum Xfer {
    Bank { to: String, coins: Vec<(String, u128)> },
    Marker { admin: String, from: String, to: String, denom: String, amount: String },
    Other(String),
}
impl Xfer {
    pub fn to_json(&self) -> Value {
        match self {
            Xfer::Bank { to, coins } => json!({"bank_send": {"to": to, "coins": coins.iter().map(|c| json!({"denom": c.0, "amount": c.1.to_string()})).collect::<Vec<_>>()}}),
            Xfer::Marker { admin, from, to, denom, amount } => json!({"marker_transfer": {"administrator": admin, "from": from, "to": to, "denom": denom, "amount": amount}}),
            Xfer::Other(s) => json!({"other": s}),
        }
    }
}

#[derive(Clone, Debug)]
pub enum Outcome {
    Ok { xfers: Vec<Xfer>, attrs: Vec<(String, String)>, unfunded: Vec<String> },
    /// handler returned an error (or the message did not decode): transaction refused
    Err(String),
    /// handler panicked: transaction aborted
    Trap(String),
}
impl Outcome {
    pub fn is_ok(&self) -> bool {
        matches!(self, Outcome::Ok { .. })
    }
    pub fn tag(&self) -> &'static str {
        match self {
            Outcome::Ok { .. } => "ok",
            Outcome::Err(_) => "err",
            Outcome::Trap(_) => "trap",
        }
    }
    pub fn attr(&self, k: &str) -> Option<String> {
        match self {
            Outcome::Ok { attrs, .. } => attrs.iter().find(|a| a.0 == k).map(|a| a.1.clone()),
            _ => None,
        }
    }
    pub fn to_json(&self) -> Value {
        match self {
            Outcome::Ok { xfers, attrs, unfunded } => json!({"ok": {
                "messages": xfers.iter().map(|x| x.to_json()).collect::<Vec<_>>(),
                "attributes": attrs.iter().map(|a| json!([a.0, a.1])).collect::<Vec<_>>(),
                "unfunded": unfunded}}),
            Outcome::Err(e) => json!({"err": e}),
            Outcome::Trap(e) => json!({"trap": e}),
        }
    }
}

pub fn decode_response(r: &Response) -> (Vec<Xfer>, Vec<(String, String)>) {
    let mut xs = vec![];
    for sm in &r.messages {
        match &sm.msg {
            CosmosMsg::Bank(BankMsg::Send { to_address, amount }) => xs.push(Xfer::Bank {
                to: to_address.clone(),
                coins: amount.iter().map(|c| (c.denom.clone(), c.amount.u128())).collect(),
            }),
            CosmosMsg::Stargate { type_url, value } => {
                if type_url == "/provenance.marker.v1.MsgTransferRequest" {
                    match MsgTransferRequest::decode(value.as_slice()) {
                        Ok(m) => {
                            let c = m.amount.clone().unwrap_or_default();
                            xs.push(Xfer::Marker {
                                admin: m.administrator,
                                from: m.from_address,
                                to: m.to_address,
                                denom: c.denom,
                                amount: c.amount,
                            })
                        }
                        Err(e) => xs.push(Xfer::Other(format!("undecodable transfer: {}", e))),
                    }
                } else {
                    xs.push(Xfer::Other(type_url.clone()))
                }
            }
            other => xs.push(Xfer::Other(format!("{:?}", other))),
        }
        if sm.id != 0 || format!("{:?}", sm.reply_on) != "Never" {
            xs.push(Xfer::Other(format!("submessage with reply {:?}", sm.reply_on)));
        }
    }
    let attrs = r.attributes.iter().map(|a| (a.key.clone(), a.value.clone())).collect();
    (xs, attrs)
}

/// One request (or change of external chain state) of a history. Serialisable for replay.
#[derive(Clone, Debug)]
pub enum Op {
    Inst { msg: Value },
    Exec { sender: String, funds: Vec<(String, u128)>, msg: Value },
    Migrate { msg: Value },
    SetMarker { denom: String, kind: MarkerKind },
    SetAttrs { account: String, names: Vec<String> },
    SetAttrFail { on: bool },
    /// harness-only: write/delete a raw storage entry (used to synthesise legacy states)
    PutRaw { key: Vec<u8>, value: Option<Vec<u8>> },
}

fn hex(b: &[u8]) -> String {
    b.iter().map(|x| format!("{:02x}", x)).collect()
}
fn unhex(s: &str) -> Vec<u8> {
    (0..s.len() / 2).map(|i| u8::from_str_radix(&s[2 * i..2 * i + 2], 16).unwrap_or(0)).collect()
}

impl Op {
    pub fn to_json(&self) -> Value {
        match self {
            Op::Inst { msg } => json!({"op": "instantiate", "msg": msg}),
            Op::Exec { sender, funds, msg } => json!({"op": "execute", "sender": sender,
                "funds": funds.iter().map(|c| json!({"denom": c.0, "amount": c.1.to_string()})).collect::<Vec<_>>(), "msg": msg}),
            Op::Migrate { msg } => json!({"op": "migrate", "msg": msg}),
            Op::SetMarker { denom, kind } => json!({"op": "set_marker", "denom": denom, "kind": kind.name()}),
            Op::SetAttrs { account, names } => json!({"op": "set_attrs", "account": account, "names": names}),
            Op::SetAttrFail { on } => json!({"op": "set_attr_fail", "on": on}),
            Op::PutRaw { key, value } => json!({"op": "put_raw", "key_hex": hex(key),
                "key_text": String::from_utf8_lossy(key), "value": value.as_ref().map(|v| String::from_utf8_lossy(v).to_string())}),
        }
    }
    pub fn from_json(v: &Value) -> Option<Op> {
        let s = |k: &str| v[k].as_str().map(|x| x.to_string());
        match v["op"].as_str()? {
            "instantiate" => Some(Op::Inst { msg: v["msg"].clone() }),
            "execute" => Some(Op::Exec {
                sender: s("sender")?,
                funds: v["funds"].as_array()?.iter().map(|c| (c["denom"].as_str().unwrap_or("").to_string(), c["amount"].as_str().unwrap_or("0").parse().unwrap_or(0))).collect(),
                msg: v["msg"].clone(),
            }),
            "migrate" => Some(Op::Migrate { msg: v["msg"].clone() }),
            "set_marker" => Some(Op::SetMarker { denom: s("denom")?, kind: MarkerKind::parse(&s("kind")?) }),
            "set_attrs" => Some(Op::SetAttrs { account: s("account")?, names: v["names"].as_array()?.iter().filter_map(|x| x.as_str().map(|y| y.to_string())).collect() }),
            "set_attr_fail" => Some(Op::SetAttrFail { on: v["on"].as_bool()? }),
            "put_raw" => Some(Op::PutRaw { key: unhex(&s("key_hex")?), value: v["value"].as_str().map(|x| x.as_bytes().to_vec()) }),
            _ => None,
        }
    }
    pub fn kind(&self) -> String {
        match self {
            Op::Inst { .. } => "instantiate".into(),
            Op::Migrate { .. } => "migrate".into(),
            Op::Exec { msg, .. } => exec_kind(msg),
            Op::SetMarker { .. } => "set_marker".into(),
            Op::SetAttrs { .. } => "set_attrs".into(),
            Op::SetAttrFail { .. } => "set_attr_fail".into(),
            Op::PutRaw { .. } => "put_raw".into(),
        }
    }
    pub fn is_call(&self) -> bool {
        matches!(self, Op::Inst { .. } | Op::Exec { .. } | Op::Migrate { .. })
    }
}

/// the single top-level key of an execute message (`create_ask`, ...), or "malformed"
pub fn exec_kind(msg: &Value) -> String {
    match msg.as_object() {
        Some(o) if o.len() == 1 => o.keys().next().unwrap().clone(),
        _ => "malformed".into(),
    }
}

pub type Ledger = BTreeMap<(String, String), i128>;

#[derive(Clone, Debug)]
pub struct World {
    pub store: Store,
    pub chain: ChainQ,
    pub ledger: Ledger,
}

impl World {
    pub fn new() -> Self {
        World { store: Store::default(), chain: ChainQ::default(), ledger: BTreeMap::new() }
    }
    fn deps(&self) -> OwnedDeps<Store, MockApi, ChainQ, Empty> {
        OwnedDeps {
            storage: self.store.clone(),
            api: MockApi::default(),
            querier: self.chain.clone(),
            custom_query_type: PhantomData,
        }
    }
    pub fn bal(&self, a: &str, d: &str) -> i128 {
        *self.ledger.get(&(a.to_string(), d.to_string())).unwrap_or(&0)
    }
    fn mv(&mut self, from: &str, to: &str, denom: &str, amt: u128) {
        if amt == 0 || from == to {
            // still materialise the keys? no: zero movement changes nothing
            return;
        }
        *self.ledger.entry((from.to_string(), denom.to_string())).or_insert(0) -= amt as i128;
        *self.ledger.entry((to.to_string(), denom.to_string())).or_insert(0) += amt as i128;
    }
    fn settle(&mut self, sender: &str, funds: &[(String, u128)], xfers: &[Xfer]) -> Vec<String> {
        let mut unfunded = vec![];
        for c in funds {
            self.mv(sender, CONTRACT, &c.0, c.1);
        }
        for x in xfers {
            match x {
                Xfer::Bank { to, coins } => {
                    for (denom, amount) in coins {
                        if self.bal(CONTRACT, denom) < *amount as i128 {
                            unfunded.push(format!(
                                "bank send of {}{} to {} with contract balance {}",
                                amount,
                                denom,
                                to,
                                self.bal(CONTRACT, denom)
                            ));
                        }
                        self.mv(CONTRACT, to, denom, *amount)
                    }
                }
                Xfer::Marker { from, to, denom, amount, .. } => {
                    let a = amount.parse::<u128>().unwrap_or(0);
                    if from == CONTRACT && self.bal(CONTRACT, denom) < a as i128 {
                        unfunded.push(format!(
                            "marker transfer of {}{} to {} with contract balance {}",
                            a,
                            denom,
                            to,
                            self.bal(CONTRACT, denom)
                        ));
                    }
                    self.mv(from, to, denom, a)
                }
                Xfer::Other(_) => {}
            }
        }
        unfunded
    }

    /// Apply one op. Calls are atomic: state and ledger change only if the handler returns Ok.
    pub fn apply(&mut self, op: &Op) -> Outcome {
        match op {
            Op::SetMarker { denom, kind } => {
                self.chain.markers.insert(denom.clone(), *kind);
                Outcome::Ok { xfers: vec![], attrs: vec![], unfunded: vec![] }
            }
            Op::SetAttrs { account, names } => {
                self.chain.attrs.insert(account.clone(), names.clone());
                Outcome::Ok { xfers: vec![], attrs: vec![], unfunded: vec![] }
            }
            Op::SetAttrFail { on } => {
                self.chain.attr_query_fails = *on;
                Outcome::Ok { xfers: vec![], attrs: vec![], unfunded: vec![] }
            }
            Op::PutRaw { key, value } => {
                match value {
                    Some(v) => self.store.data.insert(key.clone(), v.clone()),
                    None => self.store.data.remove(key),
                };
                Outcome::Ok { xfers: vec![], attrs: vec![], unfunded: vec![] }
            }
            Op::Inst { msg } => {
                let bytes = serde_json::to_vec(msg).unwrap();
                let m: InstantiateMsg = match from_slice(&bytes) {
                    Ok(m) => m,
                    Err(e) => return Outcome::Err(format!("decode: {}", e)),
                };
                let mut deps = self.deps();
                let info = MessageInfo { sender: Addr::unchecked(ADMIN), funds: vec![] };
                let r = catch_unwind(AssertUnwindSafe(|| {
                    instantiate(deps.as_mut(), mock_env(), info, m)
                }));
                self.finish(r.map(|x| x.map_err(|e| format!("{:?}", e))), deps.storage, ADMIN, &[])
            }
            Op::Exec { sender, funds, msg } => {
                let bytes = serde_json::to_vec(msg).unwrap();
                let m: ExecuteMsg = match from_slice(&bytes) {
                    Ok(m) => m,
                    Err(e) => return Outcome::Err(format!("decode: {}", e)),
                };
                let mut deps = self.deps();
                let info = MessageInfo {
                    sender: Addr::unchecked(sender.clone()),
                    funds: funds
                        .iter()
                        .map(|c| Coin { denom: c.0.clone(), amount: Uint128::new(c.1) })
                        .collect(),
                };
                let r =
                    catch_unwind(AssertUnwindSafe(|| execute(deps.as_mut(), mock_env(), info, m)));
                self.finish(r.map(|x| x.map_err(|e| format!("{:?}", e))), deps.storage, sender, funds)
            }
            Op::Migrate { msg } => {
                let bytes = serde_json::to_vec(msg).unwrap();
                let m: MigrateMsg = match from_slice(&bytes) {
                    Ok(m) => m,
                    Err(e) => return Outcome::Err(format!("decode: {}", e)),
                };
                let mut deps = self.deps();
                let r = catch_unwind(AssertUnwindSafe(|| migrate(deps.as_mut(), mock_env(), m)));
                self.finish(r.map(|x| x.map_err(|e| format!("{:?}", e))), deps.storage, ADMIN, &[])
            }
        }
    }

    fn finish(
        &mut self,
        r: Result<Result<Response, String>, Box<dyn std::any::Any + Send>>,
        new_store: Store,
        sender: &str,
        funds: &[(String, u128)],
    ) -> Outcome {
        match r {
            Ok(Ok(resp)) => {
                self.store = new_store;
                let (xfers, attrs) = decode_response(&resp);
                let unfunded = self.settle(sender, funds, &xfers);
                Outcome::Ok { xfers, attrs, unfunded }
            }
            Ok(Err(e)) => Outcome::Err(e),
            Err(p) => Outcome::Trap(panic_msg(p)),
        }
    }

    /// query through the real entry point; result parsed as JSON
    pub fn query(&self, msg: &Value) -> Result<Value, String> {
        let bytes = serde_json::to_vec(msg).unwrap();
        let m: QueryMsg = match from_slice(&bytes) {
            Ok(m) => m,
            Err(e) => return Err(format!("decode: {}", e)),
        };
        let deps = self.deps();
        let r = catch_unwind(AssertUnwindSafe(|| query(deps.as_ref(), mock_env(), m)));
        let same = deps.storage == self.store;
        match r {
            Ok(Ok(b)) => {
                if !same {
                    return Err("QUERY-MUTATED-STORAGE".into());
                }
                serde_json::from_slice(b.as_slice()).map_err(|e| format!("result not json: {}", e))
            }
            Ok(Err(e)) => Err(format!("{:?}", e)),
            Err(p) => Err(format!("TRAP {}", panic_msg(p))),
        }
    }

    /// raw scan of a cw-storage-plus Map namespace -> (key text, raw value bytes)
    pub fn scan_raw(&self, ns: &str) -> Vec<(String, Vec<u8>)> {
        let prefix = map_prefix(ns);
        self.store
            .data
            .iter()
            .filter(|(k, _)| k.starts_with(&prefix))
            .map(|(k, v)| (String::from_utf8_lossy(&k[prefix.len()..]).to_string(), v.clone()))
            .collect()
    }
    pub fn item_raw(&self, ns: &str) -> Option<Value> {
        self.store.data.get(ns.as_bytes()).and_then(|v| serde_json::from_slice(v).ok())
    }
}

pub fn map_prefix(ns: &str) -> Vec<u8> {
    let mut prefix = vec![];
    prefix.extend_from_slice(&(ns.len() as u16).to_be_bytes());
    prefix.extend_from_slice(ns.as_bytes());
    prefix
}
pub fn map_key(ns: &str, id: &str) -> Vec<u8> {
    let mut k = map_prefix(ns);
    k.extend_from_slice(id.as_bytes());
    k
}

fn panic_msg(p: Box<dyn std::any::Any + Send>) -> String {
    if let Some(s) = p.downcast_ref::<&str>() {
        s.to_string()
    } else if let Some(s) = p.downcast_ref::<String>() {
        s.clone()
    } else {
        "?".into()
    }
}

/// net ledger change between two worlds
pub fn ledger_delta(before: &World, after: &World) -> Ledger {
    let mut d = Ledger::new();
    for (k, v) in after.ledger.iter() {
        let b = *before.ledger.get(k).unwrap_or(&0);
        if *v != b {
            d.insert(k.clone(), v - b);
        }
    }
    for (k, v) in before.ledger.iter() {
        if !after.ledger.contains_key(k) && *v != 0 {
            d.insert(k.clone(), -*v);
        }
    }
    d
}
