// Violations, per-property counters and evidence accumulation.
use serde_json::{json, Value};
use std::collections::{BTreeMap, BTreeSet};

pub const PROPS: [&str; 17] = [
    "C01", "C02", "C03", "C04", "C05", "C06", "C07", "C08", "C09", "C10", "C11", "C12", "C13",
    "C14", "C15", "C16", "C17",
];

#[derive(Clone, Debug)]
pub struct Viol {
    pub prop: &'static str,
    /// which monitor raised it
    pub monitor: &'static str,
    /// short class of the violation (used to deduplicate)
    pub sig: String,
    pub detail: String,
    /// id of a known finding whose signature this witness matches (set by the monitor)
    pub kf: Option<&'static str>,
    /// the probe request (issued on a copy of the state) that exposed it, if any
    pub probe: Option<Value>,
}

#[derive(Clone, Debug, Default)]
pub struct PropStats {
    pub evals: u64,
    pub cases: BTreeSet<String>,
    pub counters: BTreeMap<String, u64>,
    pub samples: Vec<Value>,
}

#[derive(Clone, Debug, Default)]
pub struct Stats {
    pub props: BTreeMap<&'static str, PropStats>,
    pub global: BTreeMap<String, u64>,
    pub books: BTreeSet<u64>,
}

impl Stats {
    pub fn eval(&mut self, prop: &'static str, case: String) {
        let p = self.props.entry(prop).or_default();
        p.evals += 1;
        p.cases.insert(case);
    }
    /// an evaluation that exercised the oracle only trivially (counted, but not a distinct case)
    pub fn eval_trivial(&mut self, prop: &'static str) {
        self.props.entry(prop).or_default().evals += 1;
    }
    pub fn count(&mut self, prop: &'static str, key: &str) {
        *self.props.entry(prop).or_default().counters.entry(key.to_string()).or_insert(0) += 1;
    }
    pub fn count_n(&mut self, prop: &'static str, key: &str, n: u64) {
        *self.props.entry(prop).or_default().counters.entry(key.to_string()).or_insert(0) += n;
    }
    pub fn get(&self, prop: &'static str, key: &str) -> u64 {
        self.props.get(prop).and_then(|p| p.counters.get(key)).copied().unwrap_or(0)
    }
    pub fn g(&mut self, key: &str) {
        *self.global.entry(key.to_string()).or_insert(0) += 1;
    }
    pub fn gn(&mut self, key: &str, n: u64) {
        *self.global.entry(key.to_string()).or_insert(0) += n;
    }
    pub fn sample(&mut self, prop: &'static str, v: impl FnOnce() -> Value, max: usize) {
        let p = self.props.entry(prop).or_default();
        if p.samples.len() < max {
            p.samples.push(v());
        }
    }
    pub fn merge(&mut self, o: Stats) {
        for (k, v) in o.props {
            let p = self.props.entry(k).or_default();
            p.evals += v.evals;
            p.cases.extend(v.cases);
            for (ck, cv) in v.counters {
                *p.counters.entry(ck).or_insert(0) += cv;
            }
            for s in v.samples {
                if p.samples.len() < 4 {
                    p.samples.push(s);
                }
            }
        }
        for (k, v) in o.global {
            *self.global.entry(k).or_insert(0) += v;
        }
        self.books.extend(o.books);
    }
    pub fn prop_json(&self, prop: &'static str) -> Value {
        let e = PropStats::default();
        let p = self.props.get(prop).unwrap_or(&e);
        json!({"evaluations": p.evals, "distinct": p.cases.len(), "counters": p.counters})
    }
}

pub fn fnv(data: &[u8]) -> u64 {
    let mut h: u64 = 0xcbf29ce484222325;
    for b in data {
        h ^= *b as u64;
        h = h.wrapping_mul(0x100000001b3);
    }
    h
}
