// development aid (not a check): search for (Q, F, r) where the contract's 28-digit pro-rata formula
// differs from the exact nearest unit without a tie (known finding KF1)
use rust_decimal::prelude::*;
use rust_decimal::{Decimal, RoundingStrategy};

fn contract_formula(f: u128, r: u128, q: u128) -> Option<u128> {
    let ratio = Decimal::from_u128(r)?.checked_div(Decimal::from_u128(q)?)?;
    Decimal::from_u128(f)?.checked_mul(ratio)?.round_dp_with_strategy(0, RoundingStrategy::MidpointAwayFromZero).to_u128()
}
fn exact(f: u128, r: u128, q: u128) -> (u128, bool) {
    // f*r < 2^127 required
    let n = f * r;
    let v = (2 * n + q) / (2 * q);
    (v, (2 * n) % (2 * q) == q)
}
fn inv_mod(a: u128, m: u128) -> Option<u128> {
    let (mut old_r, mut r) = (a as i128, m as i128);
    let (mut old_s, mut s) = (1i128, 0i128);
    while r != 0 {
        let q = old_r / r;
        let t = old_r - q * r; old_r = r; r = t;
        let t = old_s - q * s; old_s = s; s = t;
    }
    if old_r != 1 { return None; }
    Some(((old_s % m as i128 + m as i128) % m as i128) as u128)
}
fn main() {
    let mut s: u64 = 12345;
    let mut next = || { s = s.wrapping_mul(6364136223846793005).wrapping_add(1442695040888963407); s >> 11 };
    let mut found = 0;
    for _ in 0..2_000_000u64 {
        let q = 1_000_000_000_000_000u128 + (next() as u128 % 9_000_000_000_000_000u128);
        let f = (q * 33 + 50) / 100;
        let inv = match inv_mod(f % q, q) { Some(i) => i, None => continue };
        for d in [1u128, 2, 3, 5, 8, 13, 21, 34, 55, 89, 144, 1000, 10000, 100000] {
            for sign in [0, 1] {
                let t = if sign == 0 { q / 2 + d } else { q / 2 - d };
                let r = (t % q) * inv % q;
                if r == 0 { continue; }
                let (v, tie) = exact(f, r, q);
                if let Some(c) = contract_formula(f, r, q) {
                    if c != v && !(tie && c + 1 == v) {
                        println!("Q={} F={} r={} exact={} tie={} contract={}", q, f, r, v, tie, c);
                        found += 1;
                    }
                }
            }
        }
        if found > 8 { break; }
    }
}
