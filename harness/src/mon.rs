// Step monitors, state invariants and per-history (offline) checkers.
use crate::exact::*;
use crate::model::*;
use crate::sim::*;
use crate::stats::*;
use crate::view::*;
use serde_json::{json, Value};
use std::collections::{BTreeMap, BTreeSet};

pub fn viol(out: &mut Vec<Viol>, prop: &'static str, monitor: &'static str, sig: &str, detail: String) {
    out.push(Viol { prop, monitor, sig: sig.to_string(), detail, kf: None, probe: None });
}
pub fn viol_kf(out: &mut Vec<Viol>, prop: &'static str, monitor: &'static str, sig: &str, detail: String, kf: Option<&'static str>) {
    out.push(Viol { prop, monitor, sig: sig.to_string(), detail, kf, probe: None });
}

/// attribute-driven shadow book: sees nothing but Response.attributes
#[derive(Default, Clone, Debug, PartialEq)]
pub struct Shadow {
    pub asks: BTreeMap<String, (u128, String)>,
    pub bids: BTreeMap<String, u128>,
}
impl Shadow {
    pub fn apply(&mut self, attrs: &[(String, String)]) -> Result<(), String> {
        let get = |k: &str| attrs.iter().find(|a| a.0 == k).map(|a| a.1.clone());
        let action = get("action").ok_or("no action attribute")?;
        let num = |k: &str| -> Result<u128, String> {
            get(k).ok_or(format!("no {} attribute", k))?.parse::<u128>().map_err(|e| format!("{}: {}", k, e))
        };
        let cls = |c: &str| -> String {
            if c.contains("Ready") {
                "ready".into()
            } else if c.contains("Pending") {
                "pending".into()
            } else {
                "basic".into()
            }
        };
        match action.as_str() {
            "create_ask" => {
                self.asks.insert(get("id").ok_or("no id")?, (num("size")?, cls(&get("class").ok_or("no class")?)));
            }
            "create_bid" => {
                self.bids.insert(get("id").ok_or("no id")?, num("size")?);
            }
            "approve_ask" => {
                let id = get("id").ok_or("no id")?;
                let e = self.asks.get_mut(&id).ok_or("approve of an ask the shadow does not know")?;
                e.1 = cls(&get("class").ok_or("no class")?);
                e.0 = num("size")?;
            }
            "cancel_ask" => {
                self.asks.remove(&get("id").ok_or("no id")?).ok_or("cancel of an ask the shadow does not know")?;
            }
            "expire_ask" | "reject_ask" => {
                let id = get("id").ok_or("no id")?;
                let c = num("reverse_size")?;
                let open = get("order_open").ok_or("no order_open")? == "true";
                let e = self.asks.get_mut(&id).ok_or("reversal of an ask the shadow does not know")?;
                e.0 = e.0.checked_sub(c).ok_or("reverse_size above the shadow's remaining size")?;
                if !open {
                    self.asks.remove(&id);
                }
            }
            "cancel_bid" | "expire_bid" | "reject_bid" => {
                let id = get("id").ok_or("no id")?;
                let c = num("reverse_size")?;
                let open = get("order_open").ok_or("no order_open")? == "true";
                let e = self.bids.get_mut(&id).ok_or("reversal of a bid the shadow does not know")?;
                *e = e.checked_sub(c).ok_or("reverse_size above the shadow's remaining size")?;
                if !open {
                    self.bids.remove(&id);
                }
            }
            "execute" => {
                let (aid, bid) = (get("ask_id").ok_or("no ask_id")?, get("bid_id").ok_or("no bid_id")?);
                let s = num("size")?;
                let e = self.asks.get_mut(&aid).ok_or("match of an ask the shadow does not know")?;
                e.0 = e.0.checked_sub(s).ok_or("match size above the shadow's remaining ask size")?;
                if e.0 == 0 {
                    self.asks.remove(&aid);
                }
                let e = self.bids.get_mut(&bid).ok_or("match of a bid the shadow does not know")?;
                *e = e.checked_sub(s).ok_or("match size above the shadow's remaining bid size")?;
                if *e == 0 {
                    self.bids.remove(&bid);
                }
            }
            "modify_contract" => {}
            x => return Err(format!("unknown action {}", x)),
        }
        Ok(())
    }
    pub fn of_book(b: &Book) -> Shadow {
        let mut s = Shadow::default();
        for (id, a) in &b.asks {
            s.asks.insert(id.clone(), (a.size, a.class.name().to_string()));
        }
        for (id, x) in &b.bids {
            s.bids.insert(id.clone(), x.rem_base().max(0) as u128);
        }
        s
    }
}

/// per-order escrow account kept by the offline C01 checker
#[derive(Clone, Debug, Default, PartialEq)]
pub struct Escrow {
    pub main: i128,     // ask: units of ask.base held; bid: quote (+fee) held
    pub approver: i128, // ask only: approver-supplied base held
}

/// monitor state that lives as long as one history
#[derive(Clone, Debug, Default)]
pub struct Hist {
    pub escrow: BTreeMap<(char, String), Escrow>,
    pub shadow: Shadow,
    pub shadow_live: bool,
    pub shadow_diverged: bool,
    pub ids_seen: BTreeSet<String>,
    pub closed: BTreeMap<(char, String), &'static str>, // (side, id) -> how it left the book
    pub steps: u64,
}

impl Hist {
    pub fn new() -> Hist {
        Hist { shadow_live: true, ..Default::default() }
    }
    /// after harness-level storage surgery (legacy ids / formats): rebuild bookkeeping from the book
    pub fn resync(&mut self, w: &World) {
        let b = Book::read(w);
        self.escrow.clear();
        for (id, a) in &b.asks {
            let ap = if let AskClass::Ready { cb_amount, .. } = &a.class { *cb_amount as i128 } else { 0 };
            self.escrow.insert(('a', id.clone()), Escrow { main: a.size as i128, approver: ap });
        }
        for (id, x) in &b.bids {
            self.escrow.insert(('b', id.clone()), Escrow { main: x.rem_quote() + x.rem_fee(), approver: 0 });
        }
        self.shadow = Shadow::of_book(&b);
        self.shadow_live = b.odd_asks.is_empty() && b.odd_bids.is_empty();
        self.shadow_diverged = false;
    }
}

pub struct StepCtx<'a> {
    pub pre: &'a World,
    pub post: &'a World,
    pub op: &'a Op,
    pub out: &'a Outcome,
    pub pre_book: Book,
    pub post_book: Book,
    pub pre_cfg: Option<Cfg>,
    pub post_cfg: Option<Cfg>,
}

fn fee_class(paid: u128, total: u128) -> &'static str {
    if total == 0 {
        "none"
    } else if paid == 0 {
        "0"
    } else if paid >= total {
        "whole"
    } else {
        "part"
    }
}

fn marker_sig(w: &World, denoms: &[&str]) -> String {
    denoms.iter().map(|d| marker_of(w, d).short()).collect()
}

fn contract_delta(d: &Ledger) -> BTreeMap<String, i128> {
    d.iter().filter(|(k, _)| k.0 == CONTRACT).map(|(k, v)| (k.1.clone(), *v)).collect()
}

fn denoms_disjoint(c: &Cfg) -> bool {
    let mut left: Vec<&String> = c.convs.iter().collect();
    left.push(&c.base);
    !left.iter().any(|d| c.quotes.contains(d))
}

/// every key of `exp` is present in `got` with an equal value (extra keys in `got` are tolerated)
pub fn json_covers(got: &Value, exp: &Value) -> bool {
    match (got, exp) {
        (Value::Object(g), Value::Object(e)) => e.iter().all(|(k, v)| g.get(k).map_or(false, |x| json_covers(x, v))),
        _ => got == exp,
    }
}

pub fn msg_body<'a>(msg: &'a Value) -> (&'a str, &'a Value) {
    match msg.as_object() {
        Some(o) if o.len() == 1 => {
            let (k, v) = o.iter().next().unwrap();
            (k.as_str(), v)
        }
        _ => ("malformed", &Value::Null),
    }
}

pub const GUARDED: [&str; 9] = [
    "cancel_ask", "cancel_bid", "expire_ask", "expire_bid", "reject_ask", "reject_bid", "execute_match", "approve_ask", "modify_contract",
];

/// Judge one call. Appends violations; updates per-history state and statistics.
pub fn check_step(c: &StepCtx, h: &mut Hist, st: &mut Stats, out: &mut Vec<Viol>) {
    h.steps += 1;
    let (sender, funds, msg) = match c.op {
        Op::Exec { sender, funds, msg } => (sender.as_str(), funds.as_slice(), msg),
        _ => return,
    };
    let (kind, body) = msg_body(msg);
    let accepted = c.out.is_ok();
    st.g(&format!("exec:{}:{}", kind, c.out.tag()));
    let cfg = match &c.pre_cfg {
        Some(c) => c,
        None => return,
    };
    if let Some(id) = body.get("id").and_then(|x| x.as_str()) {
        h.ids_seen.insert(id.to_string());
    }
    for k in ["ask_id", "bid_id"] {
        if let Some(id) = body.get(k).and_then(|x| x.as_str()) {
            h.ids_seen.insert(id.to_string());
        }
    }

    // A request (other than a create) whose order id is not a key of the book as spelled, but is another
    // spelling of the UUID of exactly one order of that side, is judged against that order. No property says
    // such a request must be refused or must be accepted (the pinned tree refuses it), only what an accepted
    // one must do; the stored key is what every monitor below takes as "the order named" (C17: the id
    // attribute must be the stored id).
    let resolved_body;
    let mut other_spelling = false;
    let body = match resolve_other_spelling(kind, body, &c.pre_book) {
        Some(b) => {
            other_spelling = true;
            st.g(if accepted { "accepted_request_under_another_spelling_of_the_id" } else { "refused_request_under_another_spelling_of_the_id" });
            resolved_body = b;
            &resolved_body
        }
        None => body,
    };

    // ---------------- two-sided accept/refuse predicates (C07, C03)
    match kind {
        "create_ask" | "create_bid" => {
            let v = if kind == "create_ask" {
                admit_ask(c.pre, cfg, &c.pre_book, sender, funds, body)
            } else {
                admit_bid(c.pre, cfg, &c.pre_book, sender, funds, body)
            };
            let side = if kind == "create_ask" { "ask" } else { "bid" };
            st.eval("C07", format!("{}|{}|{}|p{}", side, v.class(), c.out.tag(), cfg.prec.min(19)));
            st.sample("C07", || json!({"request": msg, "sender": sender, "funds": funds.iter().map(|f| json!([f.0, f.1.to_string()])).collect::<Vec<_>>(), "oracle": v.class(), "observed": c.out.tag()}), 3);
            if accepted && !v.exact_ok {
                viol(out, "C07", "admission", &format!("inadmissible {} accepted: {}", side, v.reason), format!("request {} by {} with funds {:?}", msg, sender, funds));
            }
            if !accepted && v.exact_ok && v.in_domain {
                viol(out, "C07", "admission", &format!("admissible {} refused", side), format!("request {} by {} with funds {:?} -> {:?}", msg, sender, funds, c.out));
            }
        }
        "execute_match" => {
            let (v, _) = match_verdict(cfg, &c.pre_book, sender, funds, body);
            let form = body.get("price").and_then(|p| p.as_str()).map_or("?", |p| if p.starts_with('0') && p.len() > 1 && !p.starts_with("0.") { "lead0" } else if p.contains('.') && p.ends_with('0') { "trail0" } else { "plain" });
            st.eval("C03", format!("{}|{}|{}", v.class(), c.out.tag(), form));
            st.sample("C03", || json!({"request": msg, "sender": sender, "oracle": v.class(), "observed": c.out.tag()}), 3);
            if accepted && !v.exact_ok {
                viol(out, "C03", "eligibility", &format!("ineligible match accepted: {}", v.reason), format!("request {} by {}", msg, sender));
            }
            if !accepted && v.exact_ok && v.in_domain && !other_spelling {
                viol(out, "C03", "eligibility", "eligible match refused", format!("request {} by {} -> {:?}", msg, sender, c.out));
            }
        }
        _ => {}
    }

    if !accepted {
        return;
    }
    let (xfers, attrs, unfunded) = match c.out {
        Outcome::Ok { xfers, attrs, unfunded } => (xfers, attrs, unfunded),
        _ => unreachable!(),
    };
    let delta = ledger_delta(c.pre, c.post);
    let cdelta = contract_delta(&delta);

    check_c05(c, cfg, kind, body, sender, st, out);
    check_c10(c, kind, sender, xfers, st, out);
    check_c11(c, cfg, kind, body, st, out);
    check_c12(c, cfg, kind, body, st, out);

    // C01: payouts the contract cannot fund
    if !unfunded.is_empty() {
        viol(out, "C01", "funding", "payout the contract cannot fund", unfunded.join("; "));
    }

    match kind {
        "create_ask" => step_create_ask(c, cfg, body, sender, funds, xfers, &cdelta, h, st, out),
        "create_bid" => step_create_bid(c, cfg, body, sender, funds, xfers, &cdelta, h, st, out),
        "approve_ask" => step_approve(c, cfg, body, sender, funds, xfers, &cdelta, h, st, out),
        "execute_match" => step_match(c, cfg, body, sender, funds, xfers, &delta, &cdelta, h, st, out),
        "cancel_ask" | "expire_ask" | "reject_ask" | "cancel_bid" | "expire_bid" | "reject_bid" => {
            step_reverse(c, cfg, kind, body, &delta, &cdelta, h, st, out)
        }
        "modify_contract" => {
            if !cdelta.is_empty() || !delta.is_empty() {
                viol(out, "C01", "conservation", "configuration change moved funds", format!("{:?}", delta));
            }
        }
        _ => {}
    }

    check_c17(c, cfg, kind, body, attrs, h, st, out);
    check_state(c.post, &c.post_book, c.post_cfg.as_ref(), h, st, out, kind);
}

// ------------------------------------------------------------------------------------------------
fn check_c05(c: &StepCtx, cfg: &Cfg, kind: &str, body: &Value, sender: &str, st: &mut Stats, out: &mut Vec<Viol>) {
    if !GUARDED.contains(&kind) {
        return;
    }
    let id = body.get("id").and_then(|x| x.as_str()).unwrap_or("");
    let ok = match kind {
        "cancel_ask" => c.pre_book.asks.get(id).map_or(false, |a| a.owner == sender),
        "cancel_bid" => c.pre_book.bids.get(id).map_or(false, |b| b.owner == sender),
        "approve_ask" => cfg.approvers.iter().any(|a| a == sender),
        _ => cfg.executors.iter().any(|a| a == sender),
    };
    st.eval("C05", format!("step|{}|{}", kind, role_set(cfg, &c.pre_book, sender, id)));
    if !ok {
        viol(out, "C05", "authorization", &format!("{} accepted from a sender without the role", kind), format!("sender {} roles {} request {}", sender, role_set(cfg, &c.pre_book, sender, id), body));
    }
}

pub fn role_set(cfg: &Cfg, book: &Book, sender: &str, id: &str) -> String {
    let mut r = String::new();
    if book.asks.get(id).map_or(false, |a| a.owner == sender) {
        r.push('A');
    }
    if book.bids.get(id).map_or(false, |b| b.owner == sender) {
        r.push('B');
    }
    if cfg.approvers.iter().any(|a| a == sender) {
        r.push('p');
    }
    if cfg.executors.iter().any(|a| a == sender) {
        r.push('x');
    }
    if cfg.ask_fee.as_ref().map_or(false, |f| f.account == sender) || cfg.bid_fee.as_ref().map_or(false, |f| f.account == sender) {
        r.push('f');
    }
    if sender == CONTRACT {
        r.push('C');
    }
    if r.is_empty() {
        r.push('-');
    }
    r
}

// ------------------------------------------------------------------------------------------------
fn check_c10(c: &StepCtx, kind: &str, sender: &str, xfers: &[Xfer], st: &mut Stats, out: &mut Vec<Viol>) {
    let pull_ok = matches!(kind, "create_ask" | "create_bid" | "approve_ask");
    let kinds: String = xfers
        .iter()
        .map(|x| match x {
            Xfer::Bank { coins, .. } => coins.first().map_or('?', |cn| marker_of(c.pre, &cn.0).short()),
            Xfer::Marker { denom, .. } => marker_of(c.pre, denom).short(),
            Xfer::Other(_) => '!',
        })
        .collect();
    for (i, x) in xfers.iter().enumerate() {
        match x {
            Xfer::Bank { to, coins } => {
                if coins.len() != 1 {
                    viol(out, "C10", "mechanism", "bank send without exactly one coin", format!("{} msg#{} {:?}", kind, i, x));
                    continue;
                }
                let (denom, amount) = &coins[0];
                st.eval("C10", format!("{}|bank|{}|all:{}", kind, marker_of(c.pre, denom).name(), kinds));
                st.sample("C10", || json!({"request_kind": kind, "message": x.to_json(), "marker_table": c.pre.chain.markers.iter().map(|(d, k)| json!([d, k.name()])).collect::<Vec<_>>()}), 3);
                if restricted(c.pre, denom) {
                    viol(out, "C10", "mechanism", "bank send of a restricted-marker denomination", format!("{} msg#{} sends {}{} to {} by bank; marker table {:?}", kind, i, amount, denom, to, c.pre.chain.markers));
                }
                if *amount == 0 {
                    viol(out, "C10", "mechanism", "zero-amount bank send", format!("{} msg#{} {:?}", kind, i, x));
                }
            }
            Xfer::Marker { admin, from, to, denom, amount } => {
                let pull = from != CONTRACT;
                st.eval("C10", format!("{}|marker-{}|{}|all:{}", kind, if pull { "pull" } else { "pay" }, marker_of(c.pre, denom).name(), kinds));
                if !restricted(c.pre, denom) {
                    viol(out, "C10", "mechanism", "marker transfer of a denomination that is not a restricted marker", format!("{} msg#{} {:?}; marker table {:?}", kind, i, x, c.pre.chain.markers));
                }
                let amt_ok = amount.parse::<u128>().map_or(false, |a| a > 0);
                if !amt_ok {
                    viol(out, "C10", "mechanism", "marker transfer amount not strictly positive", format!("{} msg#{} {:?}", kind, i, x));
                }
                if admin != CONTRACT {
                    viol(out, "C10", "mechanism", "marker transfer administrator is not the contract", format!("{} msg#{} {:?}", kind, i, x));
                }
                if pull {
                    if !(pull_ok && from == sender && to == CONTRACT) {
                        viol(out, "C10", "mechanism", "marker transfer drawn from an account other than the contract / the escrowing sender", format!("{} by {} msg#{} {:?}", kind, sender, i, x));
                    }
                } else if to == CONTRACT {
                    viol(out, "C10", "mechanism", "marker transfer from the contract to itself", format!("{} msg#{} {:?}", kind, i, x));
                }
            }
            Xfer::Other(s) => {
                viol(out, "C10", "mechanism", "message that is neither a bank send nor a marker transfer", format!("{} msg#{} {}", kind, i, s));
            }
        }
    }
}


// ------------------------------------------------------------------------------------------------
fn raw_map(w: &World, ns: &str) -> BTreeMap<String, Vec<u8>> {
    w.scan_raw(ns).into_iter().collect()
}

fn check_c11(c: &StepCtx, cfg: &Cfg, kind: &str, body: &Value, st: &mut Stats, out: &mut Vec<Viol>) {
    let id = body.get("id").and_then(|x| x.as_str()).unwrap_or("").to_string();
    let (named_asks, named_bids): (Vec<String>, Vec<String>) = match kind {
        "create_ask" | "approve_ask" | "cancel_ask" | "expire_ask" | "reject_ask" => (vec![id.clone()], vec![]),
        "create_bid" | "cancel_bid" | "expire_bid" | "reject_bid" => (vec![], vec![id.clone()]),
        "execute_match" => (
            vec![body.get("ask_id").and_then(|x| x.as_str()).unwrap_or("").to_string()],
            vec![body.get("bid_id").and_then(|x| x.as_str()).unwrap_or("").to_string()],
        ),
        _ => (vec![], vec![]),
    };
    let others = c.pre_book.n_asks() + c.pre_book.n_bids();
    let mut touched = vec![];
    for (ns, named) in [("ask", &named_asks), ("bid", &named_bids)] {
        let a = raw_map(c.pre, ns);
        let b = raw_map(c.post, ns);
        let keys: BTreeSet<&String> = a.keys().chain(b.keys()).collect();
        for k in keys {
            if a.get(k) != b.get(k) {
                touched.push(format!("{}:{}", ns, k));
                if !named.contains(k) {
                    viol(out, "C11", "book-diff", &format!("{} changed an order it does not name", kind), format!("{} entry {} : {:?} -> {:?}", ns, k, a.get(k).map(|v| String::from_utf8_lossy(v).to_string()), b.get(k).map(|v| String::from_utf8_lossy(v).to_string())));
                }
            }
        }
    }
    st.eval("C11", format!("{}|others:{}|touched:{}", kind, others.min(12), touched.len()));
    st.sample("C11", || json!({"request_kind": kind, "named": {"asks": named_asks, "bids": named_bids}, "entries_changed": touched, "other_orders_on_book": others}), 3);
    let ci = (c.pre.store.data.get(b"contract_info".as_slice()), c.post.store.data.get(b"contract_info".as_slice()));
    if kind != "modify_contract" && ci.0 != ci.1 {
        viol(out, "C11", "book-diff", &format!("{} changed the configuration", kind), format!("{:?} -> {:?}", ci.0.map(|v| String::from_utf8_lossy(v).to_string()), ci.1.map(|v| String::from_utf8_lossy(v).to_string())));
    }
    let vi = (c.pre.store.data.get(b"version_info".as_slice()), c.post.store.data.get(b"version_info".as_slice()));
    if vi.0 != vi.1 {
        viol(out, "C11", "book-diff", &format!("{} changed the version record", kind), format!("{:?} -> {:?}", vi.0.map(|v| String::from_utf8_lossy(v).to_string()), vi.1.map(|v| String::from_utf8_lossy(v).to_string())));
    }
    let (oa, ob) = (other_keys(c.pre), other_keys(c.post));
    if oa != ob || oa.iter().any(|k| c.pre.store.data.get(k) != c.post.store.data.get(k)) {
        viol(out, "C11", "book-diff", &format!("{} wrote outside the book and the two records", kind), format!("{:?} -> {:?}", oa, ob));
    }
    // the named orders: immutable terms, shrinking remainders, legal class transition
    for k in &named_asks {
        if let (Some(a), Some(b)) = (c.pre_book.asks.get(k), c.post_book.asks.get(k)) {
            if (&a.id, &a.owner, &a.base, &a.quote, &a.price) != (&b.id, &b.owner, &b.base, &b.quote, &b.price) {
                viol(out, "C11", "immutables", "immutable term of an ask changed", format!("{} -> {}", a.raw, b.raw));
            }
            if b.size > a.size {
                viol(out, "C11", "immutables", "ask remaining size grew", format!("{} -> {}", a.raw, b.raw));
            }
            let ok = match (&a.class, &b.class) {
                (AskClass::Basic, AskClass::Basic) | (AskClass::Pending, AskClass::Pending) => true,
                (AskClass::Pending, AskClass::Ready { .. }) => kind == "approve_ask",
                (AskClass::Ready { approver: x, cb_denom: d1, .. }, AskClass::Ready { approver: y, cb_denom: d2, .. }) => x == y && d1 == d2,
                _ => false,
            };
            if !ok {
                viol(out, "C11", "immutables", "illegal ask class transition", format!("{} by {}: {} -> {}", kind, k, a.raw["class"], b.raw["class"]));
            }
        }
        if kind == "create_ask" && c.pre_book.asks.contains_key(k) && c.pre_book.asks.get(k).map(|x| &x.raw) != c.post_book.asks.get(k).map(|x| &x.raw) {
            viol(out, "C11", "immutables", "create overwrote an existing ask", format!("id {}", k));
        }
    }
    for k in &named_bids {
        if let (Some(a), Some(b)) = (c.pre_book.bids.get(k), c.post_book.bids.get(k)) {
            if (&a.id, &a.owner, &a.price, &a.base_denom, a.base_amount, &a.quote_denom, a.quote_amount, &a.fee) != (&b.id, &b.owner, &b.price, &b.base_denom, b.base_amount, &b.quote_denom, b.quote_amount, &b.fee) {
                viol(out, "C11", "immutables", "immutable term of a bid changed", format!("{} -> {}", a.raw, b.raw));
            }
            if b.acc_base < a.acc_base || b.acc_quote < a.acc_quote || b.acc_fee < a.acc_fee {
                viol(out, "C11", "immutables", "bid remaining amount grew", format!("{} -> {}", a.raw, b.raw));
            }
        }
        if kind == "create_bid" && c.pre_book.bids.contains_key(k) && c.pre_book.bids.get(k).map(|x| &x.raw) != c.post_book.bids.get(k).map(|x| &x.raw) {
            viol(out, "C11", "immutables", "create overwrote an existing bid", format!("id {}", k));
        }
    }
    let _ = cfg;
}

// ------------------------------------------------------------------------------------------------
fn check_c12(c: &StepCtx, cfg: &Cfg, kind: &str, body: &Value, st: &mut Stats, out: &mut Vec<Viol>) {
    let after = match &c.post_cfg {
        Some(a) => a,
        None => {
            viol(out, "C12", "config-diff", "configuration unreadable after an execute request", kind.to_string());
            return;
        }
    };
    if market_params(cfg) != market_params(after) {
        viol(out, "C12", "config-diff", &format!("{} changed a market parameter", kind), format!("{:?} -> {:?}", market_params(cfg), market_params(after)));
    }
    if kind != "modify_contract" {
        st.eval_trivial("C12");
        return;
    }
    let mask: String = ["approvers", "executors", "ask_fee_rate", "ask_fee_account", "bid_fee_rate", "bid_fee_account", "ask_required_attributes", "bid_required_attributes"]
        .iter()
        .map(|k| if body.get(*k).map_or(true, |v| v.is_null()) { '0' } else { '1' })
        .collect();
    let bs = format!("{}{}", if c.pre_book.n_asks() > 0 { "A" } else { "-" }, if c.pre_book.n_bids() > 0 { "B" } else { "-" });
    st.eval("C12", format!("accepted|{}|{}", mask, bs));
    st.count("C12", "accepted_modifications");
    st.sample("C12", || json!({"request": body, "book": bs, "config_before": format!("{:?}", cfg), "config_after": format!("{:?}", after)}), 3);
    for v in modify_violations(cfg, after, &c.pre_book, body) {
        let sig = v.split(':').next().unwrap_or("").to_string();
        viol(out, "C12", "config-rules", &sig, format!("{} ; request {} ; before {:?}", v, body, cfg));
    }
}

// ------------------------------------------------------------------------------------------------
#[allow(clippy::too_many_arguments)]
fn step_create_ask(c: &StepCtx, cfg: &Cfg, body: &Value, sender: &str, funds: &[(String, u128)], xfers: &[Xfer], cdelta: &BTreeMap<String, i128>, h: &mut Hist, st: &mut Stats, out: &mut Vec<Viol>) {
    let id = body["id"].as_str().unwrap_or("").to_string();
    let base = body["base"].as_str().unwrap_or("").to_string();
    let size: u128 = body["size"].as_str().and_then(|x| x.parse().ok()).unwrap_or(0);
    // recorded order reproduces the request
    let class = if base == cfg.base { json!("Basic") } else { json!({"Convertible": {"status": "PendingIssuerApproval"}}) };
    let exp = json!({"id": id, "owner": sender, "class": class, "base": base, "quote": body["quote"], "price": body["price"], "size": size.to_string()});
    match c.post_book.asks.get(&id) {
        Some(a) if json_covers(&a.raw, &exp) => {}
        got => viol(out, "C07", "record", "recorded ask differs from the request", format!("expected {} got {:?}", exp, got.map(|a| a.raw.clone()))),
    }
    // escrow mechanism: exactly one attached coin, or exactly one pull from the sender
    let r = restricted(c.pre, &base);
    st.count("C07", if r { "accepted_ask_pull" } else { "accepted_ask_funds" });
    if r {
        let want = vec![Xfer::Marker { admin: CONTRACT.into(), from: sender.into(), to: CONTRACT.into(), denom: base.clone(), amount: size.to_string() }];
        if xfers != want.as_slice() || !funds.is_empty() {
            viol(out, "C07", "escrow", "restricted-base ask not escrowed by exactly one pull transfer from the sender", format!("messages {:?} funds {:?}", xfers, funds));
        }
    } else if !xfers.is_empty() {
        viol(out, "C07", "escrow", "create ask emitted messages for an ordinary denomination", format!("{:?}", xfers));
    }
    let mut expd = BTreeMap::new();
    if size > 0 {
        expd.insert(base.clone(), size as i128);
    }
    if cdelta != &expd {
        viol(out, "C07", "escrow", "escrow taken differs from the obligation recorded", format!("contract delta {:?} expected {:?}", cdelta, expd));
        viol(out, "C01", "per-order", "ask escrow differs from the size recorded", format!("contract delta {:?} expected {:?}", cdelta, expd));
    }
    h.closed.remove(&('a', id.clone()));
    h.escrow.insert(('a', id), Escrow { main: *cdelta.get(&base).unwrap_or(&0), approver: 0 });
    st.eval("C01", format!("create_ask|{}|{}", if base == cfg.base { "basic" } else { "conv" }, marker_of(c.pre, &base).name()));
}

#[allow(clippy::too_many_arguments)]
fn step_create_bid(c: &StepCtx, cfg: &Cfg, body: &Value, sender: &str, funds: &[(String, u128)], xfers: &[Xfer], cdelta: &BTreeMap<String, i128>, h: &mut Hist, st: &mut Stats, out: &mut Vec<Viol>) {
    let id = body["id"].as_str().unwrap_or("").to_string();
    let quote = body["quote"].as_str().unwrap_or("").to_string();
    let size: u128 = body["size"].as_str().and_then(|x| x.parse().ok()).unwrap_or(0);
    let qsize: u128 = body["quote_size"].as_str().and_then(|x| x.parse().ok()).unwrap_or(0);
    let fee = match body.get("fee") {
        None | Some(Value::Null) => None,
        Some(f) => Some((f["denom"].as_str().unwrap_or("").to_string(), f["amount"].as_str().and_then(|x| x.parse::<u128>().ok()).unwrap_or(0))),
    };
    let feej = match &fee {
        None => Value::Null,
        Some((d, a)) => json!({"denom": d, "amount": a.to_string()}),
    };
    let exp = json!({"base": {"denom": body["base"], "amount": size.to_string()}, "accumulated_base": "0", "accumulated_quote": "0", "accumulated_fee": "0",
        "fee": feej, "id": id, "owner": sender, "price": body["price"], "quote": {"denom": quote, "amount": qsize.to_string()}});
    match c.post_book.bids.get(&id) {
        Some(b) if json_covers(&b.raw, &exp) => {}
        got => viol(out, "C07", "record", "recorded bid differs from the request", format!("expected {} got {:?}", exp, got.map(|a| a.raw.clone()))),
    }
    let need = qsize + fee.as_ref().map_or(0, |f| f.1);
    let r = restricted(c.pre, &quote);
    st.count("C07", if r { "accepted_bid_pull" } else { "accepted_bid_funds" });
    if r {
        let want = vec![Xfer::Marker { admin: CONTRACT.into(), from: sender.into(), to: CONTRACT.into(), denom: quote.clone(), amount: need.to_string() }];
        if xfers != want.as_slice() || !funds.is_empty() {
            viol(out, "C07", "escrow", "restricted-quote bid not escrowed by exactly one pull transfer from the sender", format!("messages {:?} funds {:?}", xfers, funds));
        }
    } else if !xfers.is_empty() {
        viol(out, "C07", "escrow", "create bid emitted messages for an ordinary denomination", format!("{:?}", xfers));
    }
    let mut expd = BTreeMap::new();
    if need > 0 {
        expd.insert(quote.clone(), need as i128);
    }
    if cdelta != &expd {
        viol(out, "C07", "escrow", "escrow taken differs from the obligation recorded", format!("contract delta {:?} expected {:?}", cdelta, expd));
        viol(out, "C01", "per-order", "bid escrow differs from quote + fee recorded", format!("contract delta {:?} expected {:?}", cdelta, expd));
    }
    // C09: fee demanded at entry = rate * total, half up
    let entry_judged = cfg.bid_fee.as_ref().map_or(true, |f| parse_dec(&f.rate).map_or(false, |r| r.form == Form::Plain && r.mant_times(qsize) < domain_limit()));
    if let Some(due) = bid_fee_due(cfg, qsize).filter(|_| entry_judged) {
        let got = fee.as_ref().map_or(0, |f| f.1);
        let rate = cfg.bid_fee.as_ref().map_or("none".to_string(), |f| f.rate.clone());
        let tie = cfg.bid_fee.as_ref().and_then(|f| parse_dec(&f.rate)).map_or(false, |r| {
            let d = pow10(r.scale);
            (w(2) * r.mantw() * w(qsize)) % (w(2) * d) == d
        });
        st.eval("C09", format!("entry|rate:{}|{}|tie:{}", rate, if due == 0 { "zero" } else { "pos" }, tie));
        if tie {
            st.count("C09", "entry_fee_ties");
        }
        if due == 0 && cfg.bid_fee.is_some() {
            st.count("C09", "entry_fee_rounds_to_zero");
        }
        if got != due {
            viol(out, "C09", "entry-fee", "fee escrowed with a bid differs from rate x total rounded half up", format!("rate {} total {} expected {} recorded {}", rate, qsize, due, got));
        }
    }
    h.closed.remove(&('b', id.clone()));
    h.escrow.insert(('b', id), Escrow { main: *cdelta.get(&quote).unwrap_or(&0), approver: 0 });
    st.eval("C01", format!("create_bid|fee:{}|{}", fee_class(fee.as_ref().map_or(0, |f| f.1), if fee.is_some() { 1 } else { 0 }), marker_of(c.pre, &quote).name()));
}

#[allow(clippy::too_many_arguments)]
fn step_approve(c: &StepCtx, cfg: &Cfg, body: &Value, sender: &str, funds: &[(String, u128)], xfers: &[Xfer], cdelta: &BTreeMap<String, i128>, h: &mut Hist, st: &mut Stats, out: &mut Vec<Viol>) {
    let id = body["id"].as_str().unwrap_or("").to_string();
    let size: u128 = body["size"].as_str().and_then(|x| x.parse().ok()).unwrap_or(0);
    st.count("C08", "accepted_approvals");
    let pre_class = c.pre_book.asks.get(&id).map_or("absent", |a| a.class.name());
    st.eval("C08", format!("approve|pre:{}|{}", pre_class, marker_sig(c.pre, &[&cfg.base])));
    st.sample("C08", || json!({"accepted_approval": body, "sender": sender, "ask_before": c.pre_book.asks.get(&id).map(|a| a.raw.clone()), "ask_after": c.post_book.asks.get(&id).map(|a| a.raw.clone())}), 3);
    if let Err(e) = approve_conditions(c.pre, cfg, &c.pre_book, sender, funds, body) {
        viol(out, "C08", "approval", &format!("approval accepted although {}", e.split(' ').take(4).collect::<Vec<_>>().join(" ")), format!("{} ; request {} by {} funds {:?}", e, body, sender, funds));
    }
    // result: Ready{approver = sender, converted_base = (size, base)}, everything else as before
    if let Some(a) = c.pre_book.asks.get(&id) {
        let mut exp = a.raw.clone();
        exp["class"] = json!({"Convertible": {"status": {"Ready": {"approver": sender, "converted_base": {"denom": cfg.base, "amount": a.size.to_string()}}}}});
        if !c.post_book.asks.get(&id).map_or(false, |x| json_covers(&x.raw, &exp)) {
            viol(out, "C08", "approval", "approved ask not recorded as ready with the approver's escrow", format!("expected {} got {:?}", exp, c.post_book.asks.get(&id).map(|x| x.raw.clone())));
        }
    }
    // escrow exactly the ask's size of base
    let r = restricted(c.pre, &cfg.base);
    if r {
        let want = vec![Xfer::Marker { admin: CONTRACT.into(), from: sender.into(), to: CONTRACT.into(), denom: cfg.base.clone(), amount: size.to_string() }];
        if xfers != want.as_slice() || !funds.is_empty() {
            viol(out, "C08", "approval", "restricted base not escrowed by exactly one pull transfer from the approver", format!("messages {:?} funds {:?}", xfers, funds));
        }
    } else if !xfers.is_empty() {
        viol(out, "C08", "approval", "approval emitted messages for an ordinary base denomination", format!("{:?}", xfers));
    }
    let want_size = c.pre_book.asks.get(&id).map_or(size, |a| a.size);
    let mut expd = BTreeMap::new();
    expd.insert(cfg.base.clone(), want_size as i128);
    if cdelta != &expd {
        viol(out, "C08", "approval", "approver escrow differs from the ask's current size", format!("contract delta {:?} expected {:?}", cdelta, expd));
        viol(out, "C01", "per-order", "approver escrow differs from the ask's current size", format!("contract delta {:?} expected {:?}", cdelta, expd));
    }
    let e = h.escrow.entry(('a', id)).or_default();
    e.approver += *cdelta.get(&cfg.base).unwrap_or(&0);
    st.eval("C01", format!("approve|{}", marker_of(c.pre, &cfg.base).name()));
}

// ------------------------------------------------------------------------------------------------
fn coincidence(parts: &[&str]) -> String {
    // pattern of equalities between the parties, e.g. "0102" = 1st and 3rd coincide
    let mut seen: Vec<&str> = vec![];
    parts
        .iter()
        .map(|p| {
            let i = match seen.iter().position(|s| s == p) {
                Some(i) => i,
                None => {
                    seen.push(p);
                    seen.len() - 1
                }
            };
            char::from_digit(i as u32, 36).unwrap_or('z')
        })
        .collect()
}

#[allow(clippy::too_many_arguments)]
/// C02 / C04 (fee part), judged from the bid's ORIGINAL fee and quote alone — not from the held fee the
/// book records before the request: the fee a request releases from a bid (to the fee account, back to
/// the bidder) must be the difference of the pro-rata held fees before and after it.
fn fee_release_check(prop: &'static str, what: &str, pre: &Bid, post: Option<&Bid>, out: &mut Vec<Viol>) {
    let fa = match &pre.fee {
        Some((_, fa)) => *fa,
        None => return,
    };
    if !pre.sane() || post.map_or(false, |p| !p.sane() || p.fee_amount() != fa || p.quote_amount != pre.quote_amount) {
        return;
    }
    let q = pre.quote_amount;
    let (rq0, hf0) = (pre.rem_quote() as u128, pre.rem_fee() as u128);
    let (rq1, hf1) = post.map_or((0, 0), |p| (p.rem_quote() as u128, p.rem_fee() as u128));
    if hf1 > hf0 || within_kf1_window(fa, rq0, q, hf0) || (post.is_some() && within_kf1_window(fa, rq1, q, hf1)) {
        return;
    }
    let released = hf0 - hf1;
    let adm0 = prorata_set(fa, rq0, q);
    let adm1 = if post.is_some() { prorata_set(fa, rq1, q) } else { vec![0] };
    let ok = adm0.iter().any(|x| adm1.iter().any(|y| x >= y && x - y == released));
    if !ok {
        viol(out, prop, "fee-release", &format!("fee released from the bid by the {} is not the pro-rata share of the fee escrowed with it", what), format!("released {} ; pro-rata held fee before {:?} after {:?} (original fee {} quote {} unspent {} -> {}) bid {}", released, adm0, adm1, fa, q, rq0, rq1, pre.raw));
    }
}

fn step_match(c: &StepCtx, cfg: &Cfg, body: &Value, sender: &str, funds: &[(String, u128)], xfers: &[Xfer], delta: &Ledger, cdelta: &BTreeMap<String, i128>, h: &mut Hist, st: &mut Stats, out: &mut Vec<Viol>) {
    let ask_id = body["ask_id"].as_str().unwrap_or("").to_string();
    let bid_id = body["bid_id"].as_str().unwrap_or("").to_string();
    let s: u128 = body["size"].as_str().and_then(|x| x.parse().ok()).unwrap_or(0);
    let (a, b) = match (c.pre_book.asks.get(&ask_id), c.pre_book.bids.get(&bid_id)) {
        (Some(a), Some(b)) => (a, b),
        _ => {
            viol(out, "C02", "settlement", "match accepted for an order that is not on the book", format!("{}", body));
            return;
        }
    };
    if a.class == AskClass::Pending {
        viol(out, "C08", "pending-match", "a pending convertible ask was matched", format!("{}", body));
    }
    fee_release_check("C02", "match", b, c.post_book.bids.get(&bid_id), out);
    let (mv, ctx) = match_verdict(cfg, &c.pre_book, sender, funds, body);
    let ctx = match ctx {
        Some(x) => x,
        None => {
            // ineligible and accepted: reported by C03. When the reason is that p*s or (bid price)*s is
            // not a whole number, no integer transfer can equal what C02 says each party is due either.
            if mv.reason.contains("not an integer") {
                viol(out, "C02", "settlement", "match settled although the amounts due are not whole numbers", format!("{} ; request {} ask {} bid {}", mv.reason, body, a.raw, b.raw));
            }
            // keep the per-order ledger (C01) in step
            if denoms_disjoint(cfg) {
                let mut rest = cdelta.clone();
                let ea = h.escrow.entry(('a', ask_id.clone())).or_default();
                ea.main += rest.remove(&a.base).unwrap_or(0);
                if let AskClass::Ready { cb_denom, .. } = &a.class {
                    ea.approver += rest.remove(cb_denom).unwrap_or(0);
                }
                let eb = h.escrow.entry(('b', bid_id.clone())).or_default();
                eb.main += rest.remove(&b.quote_denom).unwrap_or(0);
            }
            return;
        }
    };
    if !ctx.amounts_exact {
        // stated bound of the claim (DESIGN section 4): beyond 2^95 rust_decimal rescales products
        st.count("C02", "matches_not_judged_outside_exact_decimal_domain");
        // the per-order ledger (C01) still has to be kept
        if denoms_disjoint(cfg) {
            let mut rest = cdelta.clone();
            let ea = h.escrow.entry(('a', ask_id.clone())).or_default();
            ea.main += rest.remove(&a.base).unwrap_or(0);
            if let AskClass::Ready { cb_denom, .. } = &a.class {
                ea.approver += rest.remove(cb_denom).unwrap_or(0);
            }
            let eb = h.escrow.entry(('b', bid_id.clone())).or_default();
            eb.main += rest.remove(&b.quote_denom).unwrap_or(0);
        }
        return;
    }
    // every payout is drawn from the contract
    for x in xfers {
        if let Xfer::Marker { from, .. } = x {
            if from != CONTRACT {
                viol(out, "C02", "settlement", "match payout not drawn from the contract", format!("{:?}", x));
            }
        }
    }
    let alts = match expect_match(cfg, a, b, &ctx, s) {
        Ok(x) => x,
        Err(_) => return,
    };
    let seller = match &a.class {
        AskClass::Ready { approver, .. } => approver.clone(),
        _ => a.owner.clone(),
    };
    let afa = cfg.ask_fee.as_ref().map_or("-".to_string(), |f| f.account.clone());
    let bfa = cfg.bid_fee.as_ref().map_or("-".to_string(), |f| f.account.clone());
    let co = coincidence(&[&b.owner, &a.owner, &seller, &afa, &bfa, sender]);
    let hit: Vec<&MatchAlt> = alts.iter().filter(|x| &x.delta == delta).collect();
    let exact_hit: Vec<&&MatchAlt> = hit.iter().filter(|x| !x.kf1).collect();
    let price_choice = if ctx.ap.eq_val(&ctx.bp) { "equal" } else if ctx.improved { "ask" } else { "bid" };
    let ask_done = s == a.size;
    let bid_done = s as i128 == b.rem_base();
    let af = alts.first().map_or(0, |x| x.ask_fee);
    let paid0 = hit.first().map_or(0, |x| x.bid_fee_paid);
    let refund0 = hit.first().map_or(0, |x| x.fee_refund);
    st.eval(
        "C02",
        format!(
            "{}|a:{}|b:{}|p:{}|af:{}|bf:{}|rf:{}|prior:{}|co:{}|m:{}",
            a.class.name(),
            if ask_done { "full" } else { "part" },
            if bid_done { "full" } else { "part" },
            price_choice,
            if cfg.ask_fee.is_none() { "none" } else { fee_class(af, ctx.gross) },
            if b.fee.is_none() { "none" } else if paid0 == 0 { "0" } else { "pos" },
            if !ctx.improved { "na" } else if refund0 == 0 { "0" } else { "pos" },
            b.acc_base > 0,
            co,
            marker_sig(c.pre, &[&cfg.base, &a.base, &b.quote_denom])
        ),
    );
    st.count("C02", "accepted_matches_judged");
    if alts.len() > 1 {
        st.count("C02", "matches_with_tie_alternatives");
    }
    st.sample("C02", || json!({"request": body, "ask_before": a.raw, "bid_before": b.raw, "observed_net_delta": delta.iter().map(|(k, v)| json!([k.0, k.1, v.to_string()])).collect::<Vec<_>>(), "alternatives": alts.len()}), 3);
    if hit.is_empty() {
        viol(out, "C02", "settlement", "net balance changes of a match differ from what each party is due", format!("observed {:?} ; admissible {:?} ; ask {} bid {} request {}", delta, alts.iter().map(|x| &x.delta).collect::<Vec<_>>(), a.raw, b.raw, body));
    } else if exact_hit.is_empty() {
        viol_kf(out, "C02", "settlement", "bid fee split explained only by the 28-digit pro-rata quotient", format!("observed {:?} ; ask {} bid {} request {}", delta, a.raw, b.raw, body), Some("KF1"));
    }
    // remaining amounts fall by exactly these quantities
    if !hit.is_empty() {
        let ok_ask = match c.post_book.asks.get(&ask_id) {
            None => ask_done,
            Some(pa) => {
                !ask_done && pa.size == a.size - s && match (&a.class, &pa.class) {
                    (AskClass::Ready { .. }, AskClass::Ready { cb_amount, .. }) => *cb_amount == a.size - s,
                    _ => true,
                }
            }
        };
        if !ok_ask {
            viol(out, "C02", "bookkeeping", "ask remaining size not reduced by exactly the executed size", format!("before {} after {:?} size {}", a.raw, c.post_book.asks.get(&ask_id).map(|x| x.raw.clone()), s));
        }
        let ok_bid = match c.post_book.bids.get(&bid_id) {
            None => bid_done,
            Some(pb) => !bid_done && pb.acc_base == b.acc_base + s && pb.acc_quote == b.acc_quote + ctx.orig_gross && hit.iter().any(|x| pb.acc_fee == b.acc_fee + x.bid_fee_paid + x.fee_refund),
        };
        if !ok_bid {
            viol(out, "C02", "bookkeeping", "bid remaining amounts not reduced by exactly what was settled", format!("before {} after {:?} size {} gross {} orig {}", b.raw, c.post_book.bids.get(&bid_id).map(|x| x.raw.clone()), s, ctx.gross, ctx.orig_gross));
        }
    }
    // C03: limit-price protection seen from the ledger (when the parties are distinct accounts)
    {
        let parties = [&b.owner, &seller, &afa, &bfa];
        let distinct_sides = b.owner != seller && b.owner != afa && bfa != seller && bfa != afa && seller != CONTRACT && b.owner != CONTRACT;
        let _ = parties;
        if distinct_sides {
            let get = |acct: &str| *delta.get(&(acct.to_string(), b.quote_denom.clone())).unwrap_or(&0);
            let seller_side = get(&seller) + if afa != seller && afa != "-" { get(&afa) } else { 0 };
            if w(seller_side.max(0) as u128) * pow10(ctx.ap.scale) < ctx.ap.mantw() * w(s) {
                viol(out, "C03", "limit-protection", "selling side received less than the ask limit price per unit", format!("received {} for {} units at limit {}", seller_side, s, a.price));
            }
            // buyer: net quote outlay (escrow consumed minus what came back), fee excluded, never above limit * s
            let consumed = match c.post_book.bids.get(&bid_id) {
                Some(pb) => (b.rem_quote() - pb.rem_quote()) + (b.rem_fee() - pb.rem_fee()),
                None => b.rem_quote() + b.rem_fee(),
            };
            let outlay = consumed - get(&b.owner);
            let fee_part = get(&bfa).max(0);
            if w((outlay - fee_part).max(0) as u128) * pow10(ctx.bp.scale) > ctx.bp.mantw() * w(s) {
                viol(out, "C03", "limit-protection", "buyer paid more than the bid limit price per unit", format!("outlay {} (fee {}) for {} units at limit {}", outlay, fee_part, s, b.price));
            }
            // buyer: quote consumed from the bid's escrow, excluding fee, never above limit * s
            st.count("C03", "limit_protection_checked");
        }
    }
    // C09: fee amounts seen from the ledger when the fee accounts are distinct from the other parties
    if cfg.ask_fee.is_some() {
        let all = [&b.owner, &seller, &bfa];
        if !all.iter().any(|x| **x == afa) && afa != CONTRACT {
            let got = *delta.get(&(afa.clone(), b.quote_denom.clone())).unwrap_or(&0);
            let rate = cfg.ask_fee.as_ref().unwrap().rate.clone();
            let tie = parse_dec(&rate).map_or(false, |r| {
                let d = pow10(r.scale);
                (w(2) * r.mantw() * w(ctx.gross)) % (w(2) * d) == d
            });
            st.eval("C09", format!("askfee|rate:{}|{}|tie:{}", rate, fee_class(af, ctx.gross), tie));
            if tie {
                st.count("C09", "ask_fee_ties");
            }
            if got != af as i128 {
                viol(out, "C09", "ask-fee", "ask fee paid differs from rate x executed total rounded half up", format!("rate {} gross {} expected {} paid {}", rate, ctx.gross, af, got));
            }
            let sg = *delta.get(&(seller.clone(), b.quote_denom.clone())).unwrap_or(&0);
            if seller != b.owner && seller != bfa && sg != (ctx.gross - af.min(ctx.gross)) as i128 {
                viol(out, "C09", "ask-fee", "ask fee not deducted from the seller's proceeds", format!("gross {} fee {} seller received {}", ctx.gross, af, sg));
            }
        }
    }
    if b.fee.is_some() && cfg.bid_fee.is_some() {
        let all = [&b.owner, &seller, &afa];
        if !all.iter().any(|x| **x == bfa) && bfa != CONTRACT {
            let got = *delta.get(&(bfa.clone(), b.quote_denom.clone())).unwrap_or(&0);
            let exact: Vec<u128> = alts.iter().filter(|x| !x.kf1).map(|x| x.bid_fee_paid).collect();
            let any: Vec<u128> = alts.iter().map(|x| x.bid_fee_paid).collect();
            st.eval("C09", format!("bidfee|{}|improved:{}|alts:{}", if got == 0 { "zero" } else { "pos" }, ctx.improved, exact.len().min(3)));
            if got == 0 {
                st.count("C09", "fill_fee_rounds_to_zero");
            }
            if exact.len() > 1 {
                st.count("C09", "fill_fee_ties");
            }
            if got < 0 || !any.contains(&(got as u128)) {
                viol(out, "C09", "fill-fee", "bid fee paid on a fill is not the pro-rata share", format!("paid {} admissible {:?} bid {} gross {}", got, exact, b.raw, ctx.gross));
            } else if !exact.contains(&(got as u128)) {
                viol_kf(out, "C09", "fill-fee", "bid fee on a fill explained only by the 28-digit pro-rata quotient", format!("paid {} admissible {:?} bid {} gross {}", got, exact, b.raw, ctx.gross), Some("KF1"));
            }
        }
    }
    // C01 per-order attribution
    if denoms_disjoint(cfg) {
        let mut rest = cdelta.clone();
        let ea = h.escrow.entry(('a', ask_id.clone())).or_default();
        ea.main += rest.remove(&a.base).unwrap_or(0);
        if let AskClass::Ready { cb_denom, .. } = &a.class {
            ea.approver += rest.remove(cb_denom).unwrap_or(0);
        }
        let eb = h.escrow.entry(('b', bid_id.clone())).or_default();
        eb.main += rest.remove(&b.quote_denom).unwrap_or(0);
        if !rest.is_empty() {
            viol(out, "C01", "per-order", "match moved a denomination that belongs to neither order", format!("{:?}", rest));
        }
    }
    st.eval("C01", format!("match|{}|a:{}|b:{}|bf:{}|{}", a.class.name(), ask_done, bid_done, if b.fee.is_none() { "none" } else { "fee" }, marker_sig(c.pre, &[&cfg.base, &a.base, &b.quote_denom])));
    if ask_done {
        h.closed.insert(('a', ask_id), "filled");
    }
    if bid_done {
        h.closed.insert(('b', bid_id), "filled");
    }
}

// ------------------------------------------------------------------------------------------------
#[allow(clippy::too_many_arguments)]
fn step_reverse(c: &StepCtx, cfg: &Cfg, kind: &str, body: &Value, delta: &Ledger, cdelta: &BTreeMap<String, i128>, h: &mut Hist, st: &mut Stats, out: &mut Vec<Viol>) {
    let id = body["id"].as_str().unwrap_or("").to_string();
    let explicit: Option<u128> = match body.get("size") {
        None | Some(Value::Null) => None,
        Some(v) => v.as_str().and_then(|x| x.parse().ok()),
    };
    let is_ask = kind.ends_with("ask");
    let how: &'static str = if kind.starts_with("cancel") { "cancelled" } else if kind.starts_with("expire") { "expired" } else { "rejected" };
    if is_ask {
        let a = match c.pre_book.asks.get(&id) {
            Some(a) => a,
            None => {
                viol(out, "C04", "reversal", "reversal accepted for an ask that is not on the book", format!("{} {}", kind, body));
                return;
            }
        };
        let part = if kind == "reject_ask" { explicit } else { None };
        let csize = part.unwrap_or(a.size);
        if let Some(p) = part {
            if p == 0 || p % cfg.inc != 0 || p > a.size {
                viol(out, "C04", "partial-size", "partial size that is zero, off the lot grid or above the remainder was accepted", format!("size {} increment {} remaining {}", p, cfg.inc, a.size));
            }
        }
        let exp = expect_reverse_ask(a, csize.min(a.size));
        let closes = csize >= a.size;
        let co = coincidence(&[&a.owner, match &a.class { AskClass::Ready { approver, .. } => approver, _ => &a.owner }]);
        st.eval("C04", format!("{}|{}|{}|{}|co:{}|m:{}", kind, a.class.name(), if part.is_some() { "partial" } else { "full" }, if closes { "closes" } else { "stays" }, co, marker_sig(c.pre, &[&a.base, &cfg.base])));
        st.count("C04", "accepted_reversals_judged");
        st.sample("C04", || json!({"request": {kind: body}, "order_before": a.raw, "observed_net_delta": delta.iter().map(|(k, v)| json!([k.0, k.1, v.to_string()])).collect::<Vec<_>>()}), 3);
        if &exp.delta != delta {
            viol(out, "C04", "reversal", "ask reversal did not return exactly the cancelled escrow to its depositors", format!("observed {:?} expected {:?} ; ask {} request {}", delta, exp.delta, a.raw, body));
        }
        let ok = match c.post_book.asks.get(&id) {
            None => closes,
            Some(pa) => {
                !closes && pa.size == a.size - csize && match (&a.class, &pa.class) {
                    (AskClass::Ready { .. }, AskClass::Ready { cb_amount, .. }) => *cb_amount == a.size - csize,
                    (x, y) => x == y,
                }
            }
        };
        if !ok {
            viol(out, "C04", "bookkeeping", "ask remaining amounts not reduced by exactly what was returned / order at zero not removed", format!("before {} after {:?} cancelled {}", a.raw, c.post_book.asks.get(&id).map(|x| x.raw.clone()), csize));
        }
        if denoms_disjoint(cfg) || true {
            let mut rest = cdelta.clone();
            let e = h.escrow.entry(('a', id.clone())).or_default();
            e.main += rest.remove(&a.base).unwrap_or(0);
            if let AskClass::Ready { cb_denom, .. } = &a.class {
                e.approver += rest.remove(cb_denom).unwrap_or(0);
            }
            if !rest.is_empty() {
                viol(out, "C01", "per-order", "ask reversal moved a denomination that does not belong to the order", format!("{:?}", rest));
            }
        }
        st.eval("C01", format!("{}|{}|{}|{}", kind, a.class.name(), if closes { "closes" } else { "stays" }, marker_sig(c.pre, &[&a.base, &cfg.base])));
        if closes {
            h.closed.insert(('a', id), how);
        }
    } else {
        let b = match c.pre_book.bids.get(&id) {
            Some(b) => b,
            None => {
                viol(out, "C04", "reversal", "reversal accepted for a bid that is not on the book", format!("{} {}", kind, body));
                return;
            }
        };
        fee_release_check("C04", "reversal", b, c.post_book.bids.get(&id), out);
        let rem = b.rem_base().max(0) as u128;
        let part = if kind == "reject_bid" { explicit } else { None };
        let csize = part.unwrap_or(rem);
        if let Some(p) = part {
            if p == 0 || p % cfg.inc != 0 || p > rem {
                viol(out, "C04", "partial-size", "partial size that is zero, off the lot grid or above the remainder was accepted", format!("size {} increment {} remaining {}", p, cfg.inc, rem));
            }
        }
        let closes = csize >= rem;
        let alts = match expect_reverse_bid(b, csize.min(rem)) {
            Ok(x) => x,
            Err(e) => {
                viol(out, "C04", "reversal", "bid reversal accepted although its amounts cannot be totalled", format!("{} ; bid {}", e, b.raw));
                return;
            }
        };
        let hit: Vec<&RevAlt> = alts.iter().filter(|x| &x.delta == delta).collect();
        let fee_ret = hit.first().map_or(0, |x| x.fee_ret);
        st.eval("C04", format!("{}|filled:{}|{}|{}|fee:{}|m:{}", kind, b.acc_base > 0, if part.is_some() { "partial" } else { "full" }, if closes { "closes" } else { "stays" }, if b.fee.is_none() { "none" } else if fee_ret == 0 { "0" } else { "pos" }, marker_sig(c.pre, &[&b.quote_denom])));
        st.count("C04", "accepted_reversals_judged");
        if alts.iter().filter(|x| !x.kf1).count() > 1 {
            st.count("C04", "reversals_with_tie_alternatives");
        }
        st.sample("C04", || json!({"request": {kind: body}, "order_before": b.raw, "observed_net_delta": delta.iter().map(|(k, v)| json!([k.0, k.1, v.to_string()])).collect::<Vec<_>>()}), 3);
        if hit.is_empty() {
            viol(out, "C04", "reversal", "bid reversal did not return exactly price x size plus the fee no longer needed", format!("observed {:?} admissible {:?} ; bid {} request {}", delta, alts.iter().map(|x| &x.delta).collect::<Vec<_>>(), b.raw, body));
        } else if hit.iter().all(|x| x.kf1) {
            viol_kf(out, "C04", "reversal", "fee returned explained only by the 28-digit pro-rata quotient", format!("observed {:?} ; bid {} request {}", delta, b.raw, body), Some("KF1"));
        }
        if !hit.is_empty() {
            let ok = match c.post_book.bids.get(&id) {
                None => closes,
                Some(pb) => !closes && pb.acc_base == b.acc_base + csize && hit.iter().any(|x| pb.acc_quote == b.acc_quote + x.quote && pb.acc_fee == b.acc_fee + x.fee_ret),
            };
            if !ok {
                viol(out, "C04", "bookkeeping", "bid remaining amounts not reduced by exactly what was returned / order at zero not removed", format!("before {} after {:?} cancelled {}", b.raw, c.post_book.bids.get(&id).map(|x| x.raw.clone()), csize));
            }
        }
        {
            let mut rest = cdelta.clone();
            let e = h.escrow.entry(('b', id.clone())).or_default();
            e.main += rest.remove(&b.quote_denom).unwrap_or(0);
            if !rest.is_empty() {
                viol(out, "C01", "per-order", "bid reversal moved a denomination that does not belong to the order", format!("{:?}", rest));
            }
        }
        st.eval("C01", format!("{}|fee:{}|{}|{}", kind, b.fee.is_some(), if closes { "closes" } else { "stays" }, marker_sig(c.pre, &[&b.quote_denom])));
        if closes {
            h.closed.insert(('b', id), how);
        }
    }
}

// ------------------------------------------------------------------------------------------------
fn check_c17(c: &StepCtx, cfg: &Cfg, kind: &str, body: &Value, attrs: &[(String, String)], h: &mut Hist, st: &mut Stats, out: &mut Vec<Viol>) {
    let get = |k: &str| attrs.iter().find(|a| a.0 == k).map(|a| a.1.clone());
    let action_name = if kind == "execute_match" { "execute" } else { kind };
    let mut class = String::new();
    if get("action").as_deref() != Some(action_name) {
        viol(out, "C17", "attributes", "action attribute does not name the request carried out", format!("{} -> action {:?}", kind, get("action")));
    }
    let want_id = |k: &str, mk: &str, out: &mut Vec<Viol>| {
        let want = body.get(mk).and_then(|x| x.as_str()).map(|x| x.to_string());
        if get(k) != want || want.is_none() {
            viol(out, "C17", "attributes", "id attribute missing or wrong", format!("{}: attribute {} = {:?}, request {} = {:?}", kind, k, get(k), mk, want));
        }
    };
    let num = |k: &str| get(k).and_then(|x| x.parse::<u128>().ok());
    match kind {
        "create_ask" | "approve_ask" => {
            want_id("id", "id", out);
            let id = body["id"].as_str().unwrap_or("");
            if let Some(a) = c.post_book.asks.get(id) {
                if get("price").as_deref() != Some(a.price.as_str()) || num("size") != Some(a.size) {
                    viol(out, "C17", "attributes", "reported price/size differ from the recorded ask", format!("{}: attrs {:?} recorded {}", kind, attrs, a.raw));
                }
                let cl = get("class").unwrap_or_default();
                let said = if cl.contains("Ready") { "ready" } else if cl.contains("Pending") { "pending" } else { "basic" };
                if said != a.class.name() {
                    viol(out, "C17", "attributes", "reported class differs from the recorded ask", format!("{}: class attr {} recorded {}", kind, cl, a.raw["class"]));
                }
                class = format!("{}", a.class.name());
            }
        }
        "create_bid" => {
            want_id("id", "id", out);
            let id = body["id"].as_str().unwrap_or("");
            if let Some(b) = c.post_book.bids.get(id) {
                if get("price").as_deref() != Some(b.price.as_str()) || num("size") != Some(b.base_amount) || num("quote_size") != Some(b.quote_amount) {
                    viol(out, "C17", "attributes", "reported price/size differ from the recorded bid", format!("attrs {:?} recorded {}", attrs, b.raw));
                }
                class = format!("fee:{}", b.fee.is_some());
            }
        }
        "cancel_ask" => want_id("id", "id", out),
        "expire_ask" | "reject_ask" | "cancel_bid" | "expire_bid" | "reject_bid" => {
            want_id("id", "id", out);
            let id = body["id"].as_str().unwrap_or("");
            let (before, after): (Option<u128>, Option<u128>) = if kind.ends_with("ask") {
                (c.pre_book.asks.get(id).map(|a| a.size), c.post_book.asks.get(id).map(|a| a.size))
            } else {
                (c.pre_book.bids.get(id).map(|b| b.rem_base().max(0) as u128), c.post_book.bids.get(id).map(|b| b.rem_base().max(0) as u128))
            };
            if let Some(bf) = before {
                let returned = bf - after.unwrap_or(0).min(bf);
                // for asks the ledger says the same thing independently
                if kind.ends_with("ask") {
                    if let Some(a) = c.pre_book.asks.get(id) {
                        let led = -(c.post.bal(CONTRACT, &a.base) - c.pre.bal(CONTRACT, &a.base));
                        if num("reverse_size").map(|x| x as i128) != Some(led) {
                            viol(out, "C17", "attributes", "reported reverse_size differs from the size actually returned", format!("{}: reverse_size {:?} ledger says {}", kind, get("reverse_size"), led));
                        }
                    }
                }
                if num("reverse_size") != Some(returned) {
                    viol(out, "C17", "attributes", "reported reverse_size differs from the size actually returned", format!("{}: reverse_size {:?} book says {}", kind, get("reverse_size"), returned));
                }
                let open = after.is_some();
                if get("order_open").as_deref() != Some(if open { "true" } else { "false" }) {
                    viol(out, "C17", "attributes", "order_open flag differs from whether the order is still on the book", format!("{}: order_open {:?} on book afterwards: {}", kind, get("order_open"), open));
                }
                class = format!("{}", if open { "stays" } else { "closes" });
            }
        }
        "execute_match" => {
            want_id("ask_id", "ask_id", out);
            want_id("bid_id", "bid_id", out);
            let aid = body["ask_id"].as_str().unwrap_or("");
            let bid = body["bid_id"].as_str().unwrap_or("");
            if let (Some(a), Some(b)) = (c.pre_book.asks.get(aid), c.pre_book.bids.get(bid)) {
                let s_book = a.size - c.post_book.asks.get(aid).map_or(0, |x| x.size).min(a.size);
                let s_led = -(c.post.bal(CONTRACT, &cfg.base) - c.pre.bal(CONTRACT, &cfg.base));
                if num("size") != Some(s_book) || (b.owner != CONTRACT && num("size").map(|x| x as i128) != Some(s_led)) {
                    viol(out, "C17", "attributes", "reported match size differs from what was executed", format!("size attr {:?} book says {} ledger says {}", get("size"), s_book, s_led));
                }
                let pa = get("price").and_then(|p| parse_dec(&p));
                let pr = body["price"].as_str().and_then(parse_dec);
                let okp = match (&pa, &pr) {
                    (Some(x), Some(y)) => x.eq_val(y),
                    _ => false,
                };
                if !okp {
                    viol(out, "C17", "attributes", "reported execution price differs numerically from the price executed", format!("price attr {:?} request {}", get("price"), body["price"]));
                }
                // fees: against what the ledger says the fee accounts received (when they can be told apart)
                {
                    let delta = ledger_delta(c.pre, c.post);
                    let seller = match &a.class {
                        AskClass::Ready { approver, .. } => approver.clone(),
                        _ => a.owner.clone(),
                    };
                    let afa = cfg.ask_fee.as_ref().map(|f| f.account.clone());
                    let bfa = cfg.bid_fee.as_ref().map(|f| f.account.clone());
                    let got = |acct: &str| *delta.get(&(acct.to_string(), b.quote_denom.clone())).unwrap_or(&0);
                    match &afa {
                        None => {
                            if num("ask_fee") != Some(0) {
                                viol(out, "C17", "attributes", "reported ask_fee is not zero although no ask-fee account exists to be paid", format!("ask_fee attr {:?}", get("ask_fee")));
                            }
                        }
                        Some(x) => {
                            if x != &b.owner && x != &seller && Some(x) != bfa.as_ref() && x != CONTRACT && num("ask_fee").map(|v| v as i128) != Some(got(x)) {
                                viol(out, "C17", "attributes", "reported ask_fee differs from the fee paid to the ask-fee account", format!("ask_fee attr {:?} account {} received {}", get("ask_fee"), x, got(x)));
                            }
                        }
                    }
                    // one account collecting both fees: it must have received their sum
                    if let (Some(x), Some(y)) = (&afa, &bfa) {
                        if x == y && x != &b.owner && x != &seller && x != CONTRACT {
                            if let (Some(af), Some(bf)) = (num("ask_fee"), num("bid_fee")) {
                                if af as i128 + bf as i128 != got(x) {
                                    viol(out, "C17", "attributes", "reported ask_fee + bid_fee differ from what the shared fee account was paid", format!("ask_fee {} bid_fee {} account {} received {}", af, bf, x, got(x)));
                                }
                            }
                        }
                    }
                    match &bfa {
                        None => {
                            if num("bid_fee") != Some(0) {
                                viol(out, "C17", "attributes", "reported bid_fee is not zero although no bid-fee account exists to be paid", format!("bid_fee attr {:?}", get("bid_fee")));
                            }
                        }
                        Some(x) => {
                            if x != &b.owner && x != &seller && Some(x) != afa.as_ref() && x != CONTRACT && num("bid_fee").map(|v| v as i128) != Some(got(x)) {
                                viol(out, "C17", "attributes", "reported bid_fee differs from the fee paid to the bid-fee account", format!("bid_fee attr {:?} account {} received {}", get("bid_fee"), x, got(x)));
                            }
                        }
                    }
                }
                // fees: against the settlement alternatives that reproduce the observed ledger
                // executor/funds are irrelevant here: rebuild the context with a permissive sender
                let mut cfg2 = cfg.clone();
                cfg2.executors = vec![String::new()];
                let ctx = match_verdict(&cfg2, &c.pre_book, "", &[], body).1;
                if let Some(ctx) = ctx {
                    if let Ok(alts) = expect_match(cfg, a, b, &ctx, s_book) {
                        let delta = ledger_delta(c.pre, c.post);
                        let hit: Vec<&MatchAlt> = alts.iter().filter(|x| x.delta == delta).collect();
                        if !hit.is_empty() {
                            if num("ask_fee") != Some(hit[0].ask_fee) {
                                viol(out, "C17", "attributes", "reported ask_fee differs from the fee paid to the ask-fee account", format!("ask_fee attr {:?} paid {}", get("ask_fee"), hit[0].ask_fee));
                            }
                            let paids: Vec<u128> = hit.iter().map(|x| x.bid_fee_paid).collect();
                            if !num("bid_fee").map_or(false, |x| paids.contains(&x)) {
                                viol(out, "C17", "attributes", "reported bid_fee differs from the fee paid to the bid-fee account", format!("bid_fee attr {:?} paid {:?}", get("bid_fee"), paids));
                            }
                            class = format!("af:{}|bf:{}|imp:{}", hit[0].ask_fee > 0, hit[0].bid_fee_paid > 0, ctx.improved);
                        }
                    }
                }
            }
        }
        _ => {}
    }
    st.eval("C17", format!("{}|{}", kind, class));
    st.sample("C17", || json!({"request_kind": kind, "attributes": attrs.iter().map(|a| json!([a.0, a.1])).collect::<Vec<_>>()}), 3);
    // attribute-driven shadow book (offline checker over the history; sees attributes only)
    if h.shadow_live {
        match h.shadow.apply(attrs) {
            Err(e) => {
                viol(out, "C17", "shadow-book", "attributes cannot be replayed into an off-chain book", format!("{}: {} ; attrs {:?}", kind, e, attrs));
                if e.contains("match size above") {
                    // the book kept from the orders' own histories has less left than was just matched
                    viol(out, "C03", "eligibility", "match carried out above the size the order's own history leaves", format!("{} ; attrs {:?}", e, attrs));
                }
                h.shadow_live = false;
            }
            Ok(()) => {
                let real = Shadow::of_book(&c.post_book);
                st.count("C17", "shadow_comparisons");
                if h.shadow != real && !h.shadow_diverged {
                    viol(out, "C17", "shadow-book", "off-chain book kept from attributes diverged from the on-chain book", format!("after {}: shadow {:?} real {:?}", kind, h.shadow, real));
                    // reported once; the off-chain book is still kept (it is what the orders' own histories leave)
                    h.shadow_diverged = true;
                }
            }
        }
    }
}

// ------------------------------------------------------------------------------------------------
/// State invariants on raw storage + ledger after an accepted step (C01, C08, C09, C11).
pub fn check_state(w: &World, book: &Book, cfg: Option<&Cfg>, h: &mut Hist, st: &mut Stats, out: &mut Vec<Viol>, kind: &str) {
    let cfg = match cfg {
        Some(c) => c,
        None => return,
    };
    if !book.odd_asks.is_empty() || !book.odd_bids.is_empty() {
        // entries in another storage format (a not-yet-migrated legacy book): amounts owed cannot be read
        return;
    }
    let mut hasher: Vec<u8> = vec![];
    let mut owed: BTreeMap<String, i128> = BTreeMap::new();
    for (k, a) in &book.asks {
        hasher.extend_from_slice(a.raw.to_string().as_bytes());
        *owed.entry(a.base.clone()).or_insert(0) += a.size as i128;
        if let AskClass::Ready { cb_denom, cb_amount, .. } = &a.class {
            *owed.entry(cb_denom.clone()).or_insert(0) += *cb_amount as i128;
            st.eval("C08", format!("state|after:{}|{}", kind, marker_sig(w, &[&cfg.base, &a.base])));
            if *cb_amount != a.size || cb_denom != &cfg.base {
                viol(out, "C08", "approver-escrow", "approver amount recorded for an approved ask differs from its remaining size", format!("after {}: {}", kind, a.raw));
            }
        }
        // C11: internal consistency
        let mut bad = vec![];
        if a.size == 0 {
            bad.push("zero remaining size");
        }
        if (a.class == AskClass::Basic) != (a.base == cfg.base) {
            bad.push("plain/convertible class does not match its base denomination");
        }
        if !cfg.quotes.contains(&a.quote) {
            bad.push("quote denomination not traded");
        }
        if a.base != cfg.base && !cfg.convs.contains(&a.base) {
            bad.push("base denomination not traded");
        }
        match parse_dec(&a.price) {
            Some(p) if !p.is_zero() && p.within_precision(cfg.prec as u32) => {}
            _ => bad.push("invalid price"),
        }
        if &a.id != k {
            bad.push("stored under a key different from its id");
        }
        for b in bad {
            viol(out, "C11", "consistency", &format!("inconsistent ask on the book: {}", b), format!("after {}: key {} {}", kind, k, a.raw));
        }
        // C01 per order (attribution by denomination needs {base, convertibles} and {quotes} disjoint)
        let e = if denoms_disjoint(cfg) { h.escrow.get(&('a', k.clone())).cloned().unwrap_or_default() } else { Escrow { main: a.size as i128, approver: if let AskClass::Ready { cb_amount, .. } = &a.class { *cb_amount as i128 } else { 0 } } };
        let ap = if let AskClass::Ready { cb_amount, .. } = &a.class { *cb_amount as i128 } else { 0 };
        if e.main != a.size as i128 || e.approver != ap {
            viol(out, "C01", "per-order", "ask's own escrow account differs from its recorded remaining amounts", format!("after {}: received-minus-paid base {} approver {} ; recorded {}", kind, e.main, e.approver, a.raw));
        }
    }
    for (k, b) in &book.bids {
        hasher.extend_from_slice(b.raw.to_string().as_bytes());
        let mut bad = vec![];
        if !b.sane() {
            bad.push("accumulated amount above the original");
        }
        if b.rem_base() <= 0 {
            bad.push("zero remaining size");
        }
        if b.base_denom != cfg.base {
            bad.push("base denomination is not the contract's");
        }
        if !cfg.quotes.contains(&b.quote_denom) {
            bad.push("quote denomination not traded");
        }
        if let Some((d, _)) = &b.fee {
            if d != &b.quote_denom {
                bad.push("fee denomination differs from the quote");
            }
        }
        match parse_dec(&b.price) {
            Some(p) if !p.is_zero() && p.within_precision(cfg.prec as u32) => {
                if b.sane() && p.mul_int(b.rem_base().max(0) as u128) != Some(b.rem_quote() as u128) {
                    bad.push("unspent quote differs from price x unfilled size");
                }
                if p.mul_int(b.base_amount) != Some(b.quote_amount) {
                    bad.push("quote differs from price x size");
                }
            }
            _ => bad.push("invalid price"),
        }
        if &b.id != k {
            bad.push("stored under a key different from its id");
        }
        for x in bad {
            viol(out, "C11", "consistency", &format!("inconsistent bid on the book: {}", x), format!("after {}: key {} {}", kind, k, b.raw));
        }
        let held = b.rem_quote() + b.rem_fee();
        *owed.entry(b.quote_denom.clone()).or_insert(0) += held;
        // C09 held fee = original fee scaled by the unspent fraction of the quote
        if let Some((_, fa)) = &b.fee {
            if b.sane() {
                let (rq, q, hf) = (b.rem_quote() as u128, b.quote_amount, b.rem_fee() as u128);
                let set = prorata_set(*fa, rq, q);
                let (_, tie) = prorata(*fa, rq, q);
                st.eval("C09", format!("held|after:{}|F%7:{}|tie:{}|zero:{}|full:{}", kind, fa % 7, tie, hf == 0, rq == q));
                if tie {
                    st.sample("C09", || json!({"after": kind, "original_fee": fa.to_string(), "unspent_quote": rq.to_string(), "original_quote": q.to_string(), "held_fee": hf.to_string(), "admissible": set.iter().map(|x| x.to_string()).collect::<Vec<_>>(), "exact_value_is_a_half_unit_tie": true}), 3);
                }
                if tie {
                    st.count("C09", "held_fee_ties");
                }
                if !set.contains(&hf) {
                    let kf = if within_kf1_window(*fa, rq, q, hf) { Some("KF1") } else { None };
                    viol_kf(out, "C09", "held-fee", if kf.is_some() { "held fee off the exact pro-rata value by the 28-digit quotient" } else { "fee held for an open bid is not its original fee scaled by the unspent quote" }, format!("after {}: held {} admissible {:?} (F={} unspent={} Q={}) bid {}", kind, hf, set, fa, rq, q, b.raw), kf);
                }
            }
        }
        let e = if denoms_disjoint(cfg) { h.escrow.get(&('b', k.clone())).cloned().unwrap_or_default() } else { Escrow { main: held, approver: 0 } };
        if e.main != held {
            viol(out, "C01", "per-order", "bid's own escrow account differs from its recorded unspent quote + fee", format!("after {}: received-minus-paid {} ; recorded {} ({})", kind, e.main, held, b.raw));
        }
    }
    // orders that left the book must have a zero escrow account
    let gone: Vec<(char, String)> = h
        .escrow
        .keys()
        .filter(|(s, id)| if *s == 'a' { !book.asks.contains_key(id) } else { !book.bids.contains_key(id) })
        .cloned()
        .collect();
    for k in gone {
        let e = h.escrow.remove(&k).unwrap();
        if (e.main != 0 || e.approver != 0) && denoms_disjoint(cfg) {
            viol(out, "C01", "per-order", "order left the book with a non-zero escrow account (over-paid or stranded)", format!("after {}: {} {} main {} approver {}", kind, if k.0 == 'a' { "ask" } else { "bid" }, k.1, e.main, e.approver));
        }
        // C08: the approver gets back exactly the unconsumed part - once the ask is gone, everything the
        // approver escrowed for it has either gone to buyers or back to the approver
        if k.0 == 'a' {
            if e.approver != 0 && denoms_disjoint(cfg) {
                viol(out, "C08", "approver-escrow", "ask left the book while part of its approver's escrow was neither delivered to buyers nor returned", format!("after {}: ask {} approver escrow account {}", kind, k.1, e.approver));
            }
            st.count("C08", "closed_asks_whose_approver_escrow_account_was_checked");
        }
        st.count("C01", "orders_closed_with_zero_escrow_checked");
    }
    // conservation per denomination
    let mut denoms: BTreeSet<String> = owed.keys().cloned().collect();
    for ((a, d), _) in w.ledger.iter() {
        if a == CONTRACT {
            denoms.insert(d.clone());
        }
    }
    for d in denoms {
        let have = w.bal(CONTRACT, &d);
        let owe = *owed.get(&d).unwrap_or(&0);
        if have != owe {
            viol(out, "C01", "conservation", "contract holdings differ from what its open orders are owed", format!("after {}: denom {} held {} owed {}", kind, d, have, owe));
        }
    }
    st.books.insert(fnv(&hasher));
    st.count("C01", "states_checked");
    if book.asks.len() + book.bids.len() >= 3 {
        st.sample("C01", || json!({"after": kind, "open_asks": book.asks.len(), "open_bids": book.bids.len(), "owed_per_denomination": owed.iter().map(|(d, v)| json!([d, v.to_string()])).collect::<Vec<_>>(), "contract_holdings": w.ledger.iter().filter(|(k, _)| k.0 == CONTRACT).map(|(k, v)| json!([k.1, v.to_string()])).collect::<Vec<_>>()}), 3);
    }
}

/// end-of-history drain (C01): cancel everything on a copy; the contract must end with exactly nothing
pub fn drain_check(w: &World, st: &mut Stats, out: &mut Vec<Viol>) {
    let mut w2 = w.clone();
    let book = Book::read(&w2);
    for (id, a) in &book.asks {
        let _ = w2.apply(&Op::Exec { sender: a.owner.clone(), funds: vec![], msg: json!({"cancel_ask": {"id": id}}) });
    }
    for (id, b) in &book.bids {
        let _ = w2.apply(&Op::Exec { sender: b.owner.clone(), funds: vec![], msg: json!({"cancel_bid": {"id": id}}) });
    }
    let left = Book::read(&w2);
    if !left.is_empty() {
        return; // exits refused: C06's business, not a conservation statement
    }
    st.count("C01", "drains_checked");
    for ((a, d), v) in w2.ledger.iter() {
        if a == CONTRACT && *v != 0 {
            viol(out, "C01", "drain", "contract balance not zero after every order was cancelled", format!("denom {} left {}", d, v));
        }
    }
}
