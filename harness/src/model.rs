// Reference model ("executable sequential spec"), written from the property statements.
// Every function judges ONE request against the OBSERVED pre-state (raw views), in exact integers.
use crate::exact::*;
use crate::sim::{Ledger, MarkerKind, World, CONTRACT};
use crate::view::*;
use serde_json::Value;
use std::cmp::Ordering;

/// Verdict of an accept/refuse predicate.
/// accepted && !exact_ok            -> violation (something that must be refused was accepted)
/// refused  && exact_ok && in_domain -> violation (converse; only for properties that state it)
#[derive(Clone, Debug)]
pub struct Verdict {
    pub exact_ok: bool,
    pub in_domain: bool,
    pub reason: String,
}
impl Verdict {
    pub fn refuse(r: &str) -> Verdict {
        Verdict { exact_ok: false, in_domain: true, reason: r.to_string() }
    }
    pub fn accept(in_domain: bool, why: &str) -> Verdict {
        Verdict { exact_ok: true, in_domain, reason: why.to_string() }
    }
    pub fn class(&self) -> String {
        if !self.exact_ok {
            format!("refuse:{}", self.reason)
        } else if self.in_domain {
            "accept".into()
        } else {
            format!("accept-unjudged:{}", self.reason)
        }
    }
}

pub fn canon_uuid(s: &str) -> bool {
    let b = s.as_bytes();
    if b.len() != 36 {
        return false;
    }
    for (i, c) in b.iter().enumerate() {
        if i == 8 || i == 13 || i == 18 || i == 23 {
            if *c != b'-' {
                return false;
            }
        } else if !(c.is_ascii_digit() || (b'a'..=b'f').contains(c)) {
            return false;
        }
    }
    true
}

/// MockApi's rule, which is the meaning of "valid address" in this harness
pub fn valid_addr(s: &str) -> bool {
    s.len() >= 3 && s.len() <= 90 && s == s.to_lowercase()
}

pub fn restricted(w: &World, d: &str) -> bool {
    matches!(w.chain.markers.get(d).copied(), Some(MarkerKind::Restricted) | Some(MarkerKind::RestrictedFinalized) | Some(MarkerKind::RestrictedGated))
}
pub fn marker_of(w: &World, d: &str) -> MarkerKind {
    w.chain.markers.get(d).copied().unwrap_or(MarkerKind::NoMarker)
}

fn gs<'a>(v: &'a Value, k: &str) -> Option<&'a str> {
    v.get(k)?.as_str()
}
fn gu(v: &Value, k: &str) -> Option<u128> {
    v.get(k)?.as_str()?.parse().ok()
}

fn below_limit(x: W) -> bool {
    x < domain_limit()
}

fn has_attrs(w: &World, sender: &str, req: &[String]) -> Result<bool, ()> {
    if req.is_empty() {
        return Ok(true);
    }
    if w.chain.attr_query_fails {
        return Err(());
    }
    let have = w.chain.attrs.get(sender).cloned().unwrap_or_default();
    Ok(req.iter().all(|a| have.contains(a)))
}

/// positive, within precision; Err(reason) otherwise. Ok carries the value.
fn price_ok(p: &str, prec: u128) -> Result<Dec, String> {
    let d = parse_dec(p).ok_or("price unparsable")?;
    if d.is_zero() {
        return Err("price zero".into());
    }
    if !d.within_precision(prec as u32) {
        return Err("price precision".into());
    }
    Ok(d)
}

// ------------------------------------------------------------------------------------------------
// C07 admission

pub fn admit_ask(w: &World, cfg: &Cfg, book: &Book, sender: &str, funds: &[(String, u128)], m: &Value) -> Verdict {
    let (id, base, quote, price, size) = match (gs(m, "id"), gs(m, "base"), gs(m, "quote"), gs(m, "price"), gu(m, "size")) {
        (Some(a), Some(b), Some(c), Some(d), Some(e)) => (a, b, c, d, e),
        _ => return Verdict::refuse("malformed message"),
    };
    if !canon_uuid(id) {
        return Verdict::refuse("id not canonical");
    }
    if base.is_empty() || quote.is_empty() || price.is_empty() {
        return Verdict::refuse("empty field");
    }
    if size < 1 {
        return Verdict::refuse("size zero");
    }
    if base != cfg.base && !cfg.convs.iter().any(|c| c == base) {
        return Verdict::refuse("base not traded");
    }
    if restricted(w, base) {
        if !funds.is_empty() {
            return Verdict::refuse("funds attached for restricted base");
        }
    } else if funds != [(base.to_string(), size)] {
        return Verdict::refuse("funds != size of base");
    }
    if !cfg.quotes.iter().any(|q| q == quote) {
        return Verdict::refuse("quote not traded");
    }
    if size % cfg.inc != 0 {
        return Verdict::refuse("size off lot grid");
    }
    let p = match price_ok(price, cfg.prec) {
        Ok(p) => p,
        Err(e) => return Verdict::refuse(&e),
    };
    match has_attrs(w, sender, &cfg.ask_attrs) {
        Ok(true) => {}
        Ok(false) => return Verdict::refuse("missing attribute"),
        Err(()) => return Verdict::refuse("attribute query failed"),
    }
    if book.asks.contains_key(id) || book.odd_asks.contains_key(id) {
        return Verdict::refuse("duplicate id");
    }
    let dom = p.form == Form::Plain && below_limit(p.mantw() * pow10(cfg.prec as u32));
    Verdict::accept(dom, if dom { "" } else { "price outside exact-decimal domain" })
}

/// expected bid fee at the configured rate; None when the configured rate is not a plain decimal
pub fn bid_fee_due(cfg: &Cfg, total: u128) -> Option<u128> {
    match &cfg.bid_fee {
        None => Some(0),
        Some(f) => parse_dec(&f.rate)?.fee_of(total),
    }
}

pub fn admit_bid(w: &World, cfg: &Cfg, book: &Book, sender: &str, funds: &[(String, u128)], m: &Value) -> Verdict {
    let (id, base, quote, price, size, qsize) =
        match (gs(m, "id"), gs(m, "base"), gs(m, "quote"), gs(m, "price"), gu(m, "size"), gu(m, "quote_size")) {
            (Some(a), Some(b), Some(c), Some(d), Some(e), Some(f)) => (a, b, c, d, e, f),
            _ => return Verdict::refuse("malformed message"),
        };
    let fee: Option<(String, u128)> = match m.get("fee") {
        None | Some(Value::Null) => None,
        Some(f) => match (gs(f, "denom"), gu(f, "amount")) {
            (Some(d), Some(a)) => Some((d.to_string(), a)),
            _ => return Verdict::refuse("malformed fee"),
        },
    };
    if !canon_uuid(id) {
        return Verdict::refuse("id not canonical");
    }
    if base.is_empty() || quote.is_empty() || price.is_empty() {
        return Verdict::refuse("empty field");
    }
    if size < 1 || qsize < 1 {
        return Verdict::refuse("size zero");
    }
    let p = match price_ok(price, cfg.prec) {
        Ok(p) => p,
        Err(e) => return Verdict::refuse(&e),
    };
    if size % cfg.inc != 0 {
        return Verdict::refuse("size off lot grid");
    }
    let total = match p.mul_int(size) {
        Some(t) => t,
        None => return Verdict::refuse("price*size not an integer"),
    };
    if total != qsize {
        return Verdict::refuse("quote_size != price*size");
    }
    let mut dom = p.form == Form::Plain
        && below_limit(p.mantw() * pow10(cfg.prec as u32))
        && below_limit(p.mant_times(size))
        && below_limit(wi(size))
        && below_limit(wi(qsize));
    let mut why = if dom { "" } else { "amounts outside exact-decimal domain" };
    let due = match &cfg.bid_fee {
        None => 0,
        Some(f) => match parse_dec(&f.rate) {
            Some(r) => {
                if r.form != Form::Plain || !below_limit(r.mant_times(total)) {
                    dom = false;
                    why = "fee rate outside exact-decimal domain";
                }
                match r.fee_of(total) {
                    Some(x) => x,
                    None => return Verdict::refuse("fee overflow"),
                }
            }
            None => {
                // configured rate is negative or unparsable: nothing definite can be demanded
                return Verdict { exact_ok: false, in_domain: false, reason: "configured rate not a plain decimal".into() };
            }
        },
    };
    let fee_judged = match &cfg.bid_fee {
        None => true,
        Some(f) => parse_dec(&f.rate).map_or(false, |r| r.form == Form::Plain && below_limit(r.mant_times(total))),
    };
    match &fee {
        Some((d, a)) => {
            if *a != due && fee_judged {
                return Verdict::refuse("fee amount != rate*total rounded half up");
            }
            if d != quote {
                return Verdict::refuse("fee denom != quote");
            }
        }
        None => {
            if due != 0 && fee_judged {
                return Verdict::refuse("fee missing");
            }
        }
    }
    if !cfg.quotes.iter().any(|q| q == quote) {
        return Verdict::refuse("quote not traded");
    }
    if base != cfg.base {
        return Verdict::refuse("base not the contract base");
    }
    match has_attrs(w, sender, &cfg.bid_attrs) {
        Ok(true) => {}
        Ok(false) => return Verdict::refuse("missing attribute"),
        Err(()) => return Verdict::refuse("attribute query failed"),
    }
    let need = match total.checked_add(fee.as_ref().map_or(0, |f| f.1)) {
        Some(n) => n,
        None => return Verdict::refuse("overflow"),
    };
    if restricted(w, quote) {
        if !funds.is_empty() {
            return Verdict::refuse("funds attached for restricted quote");
        }
    } else if funds != [(quote.to_string(), need)] {
        return Verdict::refuse("funds != price*size + fee");
    }
    if book.bids.contains_key(id) || book.odd_bids.contains_key(id) {
        return Verdict::refuse("duplicate id");
    }
    Verdict::accept(dom, why)
}

// ------------------------------------------------------------------------------------------------
// C08 approval (one-sided: what an accepted approval must have satisfied)

pub fn approve_conditions(w: &World, cfg: &Cfg, book: &Book, sender: &str, funds: &[(String, u128)], m: &Value) -> Result<(), String> {
    let (id, base, size) = match (gs(m, "id"), gs(m, "base"), gu(m, "size")) {
        (Some(a), Some(b), Some(c)) => (a, b, c),
        _ => return Err("malformed message".into()),
    };
    if !cfg.approvers.iter().any(|a| a == sender) {
        return Err("sender is not an approver".into());
    }
    let ask = book.asks.get(id).ok_or("no such ask")?;
    match &ask.class {
        AskClass::Pending => {}
        AskClass::Basic => return Err("plain ask approved".into()),
        AskClass::Ready { .. } => return Err("already approved".into()),
    }
    if base != cfg.base {
        return Err("base is not the contract base".into());
    }
    if size != ask.size {
        return Err(format!("size {} != current ask size {}", size, ask.size));
    }
    if restricted(w, base) {
        if !funds.is_empty() {
            return Err("funds attached for restricted base".into());
        }
    } else if funds != [(base.to_string(), size)] {
        return Err("funds != ask size of base".into());
    }
    Ok(())
}

// ------------------------------------------------------------------------------------------------
// C03 match eligibility

pub struct MatchCtx {
    pub ep: Dec,
    pub bp: Dec,
    pub ap: Dec,
    pub gross: u128,
    pub orig_gross: u128,
    pub improved: bool,
    /// price and rate products are inside the exact-decimal domain (amounts can be judged exactly)
    pub amounts_exact: bool,
}

/// 32 lower-case hex digits of a UUID written in any of the usual spellings, or None
pub fn uuid_hex(s: &str) -> Option<String> {
    let t = s.trim();
    let t = t.strip_prefix("urn:uuid:").unwrap_or(t);
    let t = t.strip_prefix('{').and_then(|x| x.strip_suffix('}')).unwrap_or(t);
    let h: String = t.chars().filter(|c| *c != '-').collect::<String>().to_lowercase();
    if h.len() == 32 && h.chars().all(|c| c.is_ascii_hexdigit()) {
        Some(h)
    } else {
        None
    }
}

/// the key under which `id` names an order: the spelling itself when an order is stored under it, else the
/// key of the only order whose id is another spelling of the same UUID
pub fn resolve_key<'a, I: Iterator<Item = &'a String>>(keys: I, id: &str) -> Option<String> {
    let keys: Vec<&String> = keys.collect();
    if keys.iter().any(|k| k.as_str() == id) {
        return Some(id.to_string());
    }
    let want = uuid_hex(id)?;
    let same: Vec<&&String> = keys.iter().filter(|k| uuid_hex(k).as_deref() == Some(want.as_str())).collect();
    if same.len() == 1 {
        Some((**same[0]).clone())
    } else {
        None
    }
}

/// the request with its order id(s) replaced by the stored key(s) they resolve to, when that differs
pub fn resolve_other_spelling(kind: &str, body: &Value, book: &Book) -> Option<Value> {
    let fields: &[(&str, bool)] = match kind {
        "cancel_ask" | "expire_ask" | "reject_ask" | "approve_ask" => &[("id", true)],
        "cancel_bid" | "expire_bid" | "reject_bid" => &[("id", false)],
        "execute_match" => &[("ask_id", true), ("bid_id", false)],
        _ => return None,
    };
    let mut b = body.clone();
    let mut changed = false;
    for (f, is_ask) in fields {
        let id = match body.get(*f).and_then(|x| x.as_str()) {
            Some(i) => i,
            None => continue,
        };
        let key = if *is_ask { resolve_key(book.asks.keys(), id) } else { resolve_key(book.bids.keys(), id) };
        if let Some(k) = key {
            if k != id {
                b[*f] = Value::String(k);
                changed = true;
            }
        }
    }
    if changed {
        Some(b)
    } else {
        None
    }
}

pub fn match_verdict(cfg: &Cfg, book: &Book, sender: &str, funds: &[(String, u128)], m: &Value) -> (Verdict, Option<MatchCtx>) {
    let (ask_id, bid_id, price, size) = match (gs(m, "ask_id"), gs(m, "bid_id"), gs(m, "price"), gu(m, "size")) {
        (Some(a), Some(b), Some(c), Some(d)) => (a, b, c, d),
        _ => return (Verdict::refuse("malformed message"), None),
    };
    // an id that is not in canonical form is a gray zone: the properties neither forbid nor demand that the
    // order stored under it can be matched (the pinned tree refuses); every other condition is still judged
    let gray_id = !canon_uuid(ask_id) || !canon_uuid(bid_id);
    if price.is_empty() || size < 1 {
        return (Verdict::refuse("empty price or zero size"), None);
    }
    if !cfg.executors.iter().any(|e| e == sender) {
        return (Verdict::refuse("sender not an executor"), None);
    }
    if !funds.is_empty() {
        return (Verdict::refuse("funds attached"), None);
    }
    let a = match book.asks.get(ask_id) {
        Some(a) => a,
        None => return (Verdict::refuse("ask not on book"), None),
    };
    let b = match book.bids.get(bid_id) {
        Some(b) => b,
        None => return (Verdict::refuse("bid not on book"), None),
    };
    if a.quote != b.quote_denom {
        return (Verdict::refuse("quote denominations differ"), None);
    }
    if a.class == AskClass::Pending {
        return (Verdict::refuse("ask pending approval"), None);
    }
    let (ap, bp) = match (parse_dec(&a.price), parse_dec(&b.price)) {
        (Some(x), Some(y)) => (x, y),
        _ => return (Verdict { exact_ok: false, in_domain: false, reason: "stored price unparsable".into() }, None),
    };
    let ep = match parse_dec(price) {
        Some(e) => e,
        None => return (Verdict::refuse("price unparsable"), None),
    };
    if ap.cmp_val(&bp) == Ordering::Greater {
        return (Verdict::refuse("ask price above bid price"), None);
    }
    if !ep.eq_val(&ap) && !ep.eq_val(&bp) {
        return (Verdict::refuse("price is neither limit"), None);
    }
    if size > a.size || (size as i128) > b.rem_base() {
        return (Verdict::refuse("size above a remainder"), None);
    }
    let gross = match ep.mul_int(size) {
        Some(g) => g,
        None => return (Verdict::refuse("price*size not an integer"), None),
    };
    let improved = ep.cmp_val(&bp) == Ordering::Less;
    let orig_gross = if improved {
        match bp.mul_int(size) {
            Some(g) => g,
            None => return (Verdict::refuse("bid price*size not an integer"), None),
        }
    } else {
        gross
    };
    let mut dom = ep.form == Form::Plain
        && ap.form == Form::Plain
        && bp.form == Form::Plain
        && below_limit(ep.mant_times(size))
        && below_limit(bp.mant_times(size))
        && below_limit(w(size));
    let mut why = if dom { "" } else { "amounts outside exact-decimal domain" };
    // configured fees payable
    if let Some(f) = &cfg.ask_fee {
        match parse_dec(&f.rate) {
            Some(r) => {
                if r.form != Form::Plain || !below_limit(r.mant_times(gross)) {
                    dom = false;
                    why = "ask rate outside exact-decimal domain";
                }
                match r.fee_of(gross) {
                    Some(fee) if fee <= gross => {}
                    _ => {
                        dom = false;
                        why = "ask fee exceeds proceeds: not payable";
                    }
                }
            }
            None => {
                dom = false;
                why = "ask rate not a plain decimal";
            }
        }
    }
    if b.fee.is_some() {
        if !b.sane() || (orig_gross as i128) > b.rem_quote() {
            dom = false;
            why = "bid bookkeeping inconsistent";
        } else {
            let fa = b.fee_amount();
            let h = b.rem_fee() as u128;
            let rq = b.rem_quote() as u128;
            let q = b.quote_amount;
            // could a fee be due on this fill?
            let due_max = prorata_set(fa, rq - gross, q).into_iter().map(|v| h.saturating_sub(v)).max().unwrap_or(0);
            if due_max > 0 && cfg.bid_fee.is_none() {
                dom = false;
                why = "bid fee due but no bid fee account configured";
            }
            // (beyond F*Q ~ 2.5e26 the pro-rata AMOUNTS are judged with the KF1 window, but acceptance
            // itself does not depend on them: the computed target is monotone in the unspent quote)
            // the held fee must be able to cover what the formula asks for
            if prorata_set(fa, rq - gross, q).into_iter().all(|v| v > h) {
                dom = false;
                why = "held fee below the pro-rata target";
            }
        }
    }
    let amounts_exact = ep.form == Form::Plain
        && bp.form == Form::Plain
        && below_limit(ep.mant_times(size))
        && below_limit(bp.mant_times(size))
        && cfg.ask_fee.as_ref().map_or(true, |f| parse_dec(&f.rate).map_or(false, |r| r.form == Form::Plain && below_limit(r.mant_times(gross))));
    if gray_id {
        dom = false;
        why = "order id not in canonical form: acceptance neither demanded nor forbidden";
    }
    (Verdict::accept(dom, why), Some(MatchCtx { ep, bp, ap, gross, orig_gross, improved, amounts_exact }))
}

// ------------------------------------------------------------------------------------------------
// expected net ledger deltas

pub fn add(d: &mut Ledger, a: &str, denom: &str, n: i128) {
    if n != 0 {
        *d.entry((a.to_string(), denom.to_string())).or_insert(0) += n;
    }
}
/// everything is drawn from the contract
pub fn close(mut d: Ledger) -> Ledger {
    let mut per: std::collections::BTreeMap<String, i128> = Default::default();
    for ((_, dn), n) in d.iter() {
        *per.entry(dn.clone()).or_insert(0) += n;
    }
    for (dn, n) in per {
        add(&mut d, CONTRACT, &dn, -n);
    }
    d.retain(|_, v| *v != 0);
    d
}

/// candidate held-fee values after `r` of `q` quote remains: (value, is it outside the property's
/// set and only explained by the 28-digit quotient = KF1)
pub fn fee_targets(f: u128, r: u128, q: u128) -> Vec<(u128, bool)> {
    let mut out: Vec<(u128, bool)> = prorata_set(f, r, q).into_iter().map(|v| (v, false)).collect();
    let (v, _) = prorata(f, r, q);
    for c in [v.saturating_sub(2), v.saturating_sub(1), v, v + 1, v + 2] {
        if !out.iter().any(|x| x.0 == c) && c <= f && within_kf1_window(f, r, q, c) {
            out.push((c, true));
        }
    }
    out
}

#[derive(Clone, Debug)]
pub struct MatchAlt {
    pub delta: Ledger,
    pub bid_fee_paid: u128,
    pub fee_refund: u128,
    pub ask_fee: u128,
    pub kf1: bool,
}

/// All admissible outcomes of an accepted match (alternatives differ only at pro-rata ties).
pub fn expect_match(cfg: &Cfg, a: &Ask, b: &Bid, ctx: &MatchCtx, s: u128) -> Result<Vec<MatchAlt>, String> {
    let g = ctx.gross;
    let go = ctx.orig_gross;
    let qd = &b.quote_denom;
    let askfee = match &cfg.ask_fee {
        None => 0,
        Some(f) => parse_dec(&f.rate).and_then(|r| r.fee_of(g)).ok_or("ask rate")?,
    };
    if askfee > g {
        return Err("ask fee above proceeds".into());
    }
    if !b.sane() || (go as i128) > b.rem_quote() {
        return Err("bid bookkeeping inconsistent".into());
    }
    let q = b.quote_amount;
    let rq = b.rem_quote() as u128;
    let mut alts: Vec<(u128, u128, bool)> = vec![];
    match &b.fee {
        None => alts.push((0, 0, false)),
        Some((_, fa)) => {
            let h = b.rem_fee() as u128;
            for (v1, k1) in fee_targets(*fa, rq - g, q) {
                if v1 > h {
                    continue;
                }
                let paid = h - v1;
                if ctx.improved {
                    for (v2, k2) in fee_targets(*fa, rq - go, q) {
                        if v2 > v1 {
                            continue;
                        }
                        alts.push((paid, v1 - v2, k1 || k2));
                    }
                } else {
                    alts.push((paid, 0, k1));
                }
            }
        }
    }
    let mut out = vec![];
    for (paid, refund, kf1) in alts {
        let mut d = Ledger::new();
        add(&mut d, &b.owner, &cfg.base, s as i128);
        add(&mut d, &b.owner, qd, (go - g + refund) as i128);
        let seller = match &a.class {
            AskClass::Basic => a.owner.clone(),
            AskClass::Ready { approver, .. } => {
                add(&mut d, approver, &a.base, s as i128);
                approver.clone()
            }
            AskClass::Pending => return Err("pending ask".into()),
        };
        add(&mut d, &seller, qd, (g - askfee) as i128);
        if askfee > 0 {
            add(&mut d, &cfg.ask_fee.as_ref().unwrap().account, qd, askfee as i128);
        }
        if paid > 0 {
            match &cfg.bid_fee {
                Some(f) => add(&mut d, &f.account, qd, paid as i128),
                None => continue,
            }
        }
        out.push(MatchAlt { delta: close(d), bid_fee_paid: paid, fee_refund: refund, ask_fee: askfee, kf1 });
    }
    Ok(out)
}

#[derive(Clone, Debug)]
pub struct RevAlt {
    pub delta: Ledger,
    pub size: u128,
    pub quote: u128,
    pub fee_ret: u128,
    pub kf1: bool,
}

/// expected effect of cancel / expire / reject of `c` units
pub fn expect_reverse_ask(a: &Ask, c: u128) -> RevAlt {
    let mut d = Ledger::new();
    add(&mut d, &a.owner, &a.base, c as i128);
    if let AskClass::Ready { approver, cb_denom, .. } = &a.class {
        add(&mut d, approver, cb_denom, c as i128);
    }
    RevAlt { delta: close(d), size: c, quote: 0, fee_ret: 0, kf1: false }
}
pub fn expect_reverse_bid(b: &Bid, c: u128) -> Result<Vec<RevAlt>, String> {
    let p = parse_dec(&b.price).ok_or("stored price unparsable")?;
    let cq = p.mul_int(c).ok_or("price*size not an integer")?;
    if !b.sane() || (cq as i128) > b.rem_quote() {
        return Err("bid bookkeeping inconsistent".into());
    }
    let q = b.quote_amount;
    let rq = b.rem_quote() as u128;
    let rets: Vec<(u128, bool)> = match &b.fee {
        None => vec![(0, false)],
        Some((_, fa)) => {
            let h = b.rem_fee() as u128;
            fee_targets(*fa, rq - cq, q).into_iter().filter(|v| v.0 <= h).map(|v| (h - v.0, v.1)).collect()
        }
    };
    let mut out = vec![];
    for (ret, kf1) in rets {
        let mut d = Ledger::new();
        add(&mut d, &b.owner, &b.quote_denom, (cq + ret) as i128);
        out.push(RevAlt { delta: close(d), size: c, quote: cq, fee_ret: ret, kf1 });
    }
    Ok(out)
}

// ------------------------------------------------------------------------------------------------
// C13 instantiation coherence

/// rust_decimal parses it for sure / surely not / unclear
#[derive(PartialEq, Clone, Copy, Debug)]
pub enum Parse3 {
    Yes,
    No,
    Unclear,
}
pub fn rate_parseable(s: &str) -> Parse3 {
    let t = s.strip_prefix('-').unwrap_or(s);
    match parse_dec(t) {
        Some(d) if (d.form == Form::Plain || d.form == Form::Padded) && !s.starts_with("--") => Parse3::Yes,
        Some(_) => Parse3::Unclear,
        // digits and one point, but longer than the oracle reads: a rounding parser may well take it
        None if looks_decimal(t) => Parse3::Unclear,
        None => Parse3::No,
    }
}

fn looks_decimal(s: &str) -> bool {
    !s.is_empty() && s.bytes().all(|b| b.is_ascii_digit() || b == b'.') && s.bytes().filter(|b| *b == b'.').count() <= 1 && s.bytes().any(|b| b.is_ascii_digit())
}

pub fn instantiate_verdict(m: &Value) -> Verdict {
    let strs = |k: &str| -> Option<Vec<String>> {
        m.get(k)?.as_array()?.iter().map(|x| x.as_str().map(|y| y.to_string())).collect()
    };
    let opt = |k: &str| -> Result<Option<String>, ()> {
        match m.get(k) {
            None | Some(Value::Null) => Ok(None),
            Some(Value::String(s)) => Ok(Some(s.clone())),
            _ => Err(()),
        }
    };
    let (name, base) = match (gs(m, "name"), gs(m, "base_denom")) {
        (Some(a), Some(b)) => (a, b),
        _ => return Verdict::refuse("malformed message"),
    };
    let (convs, quotes, approvers, executors, aattr, battr) = match (
        strs("convertible_base_denoms"),
        strs("supported_quote_denoms"),
        strs("approvers"),
        strs("executors"),
        strs("ask_required_attributes"),
        strs("bid_required_attributes"),
    ) {
        (Some(a), Some(b), Some(c), Some(d), Some(e), Some(f)) => (a, b, c, d, e, f),
        _ => return Verdict::refuse("malformed message"),
    };
    let _ = (convs, aattr, battr);
    let (prec, inc) = match (gu(m, "price_precision"), gu(m, "size_increment")) {
        (Some(a), Some(b)) => (a, b),
        _ => return Verdict::refuse("malformed message"),
    };
    let (afr, afa, bfr, bfa) = match (opt("ask_fee_rate"), opt("ask_fee_account"), opt("bid_fee_rate"), opt("bid_fee_account")) {
        (Ok(a), Ok(b), Ok(c), Ok(d)) => (a, b, c, d),
        _ => return Verdict::refuse("malformed message"),
    };
    if name.is_empty() {
        return Verdict::refuse("name empty");
    }
    if base.is_empty() {
        return Verdict::refuse("base empty");
    }
    if quotes.is_empty() {
        return Verdict::refuse("quote list empty");
    }
    if executors.is_empty() {
        return Verdict::refuse("executor list empty");
    }
    if prec > 18 {
        return Verdict::refuse("precision above 18");
    }
    if inc < 1 {
        return Verdict::refuse("increment zero");
    }
    if inc % 10u128.pow(prec as u32) != 0 {
        return Verdict::refuse("increment not a multiple of 10^precision");
    }
    for a in approvers.iter().chain(executors.iter()) {
        if !valid_addr(a) {
            return Verdict::refuse("invalid address");
        }
    }
    let mut unclear = false;
    for (rate, acct) in [(&afr, &afa), (&bfr, &bfa)] {
        match (rate, acct) {
            (None, None) => {}
            (Some(_), None) | (None, Some(_)) => return Verdict::refuse("half-supplied fee pair"),
            (Some(r), Some(a)) => {
                if r.is_empty() && a.is_empty() {
                    continue;
                }
                match rate_parseable(r) {
                    Parse3::No => return Verdict::refuse("fee rate unparsable"),
                    Parse3::Unclear => unclear = true,
                    Parse3::Yes => {}
                }
                if !valid_addr(a) {
                    return Verdict::refuse("invalid fee account");
                }
            }
        }
    }
    Verdict::accept(!unclear, if unclear { "gray-zone rate string" } else { "" })
}

/// the configuration an accepted instantiate must have stored (as raw JSON)
pub fn instantiate_expected_cfg(m: &Value) -> Value {
    let fee = |r: &str, a: &str| -> Value {
        match (m.get(r).and_then(|x| x.as_str()), m.get(a).and_then(|x| x.as_str())) {
            (Some(rate), Some(acct)) if !(rate.is_empty() && acct.is_empty()) => serde_json::json!({"account": acct, "rate": rate}),
            _ => Value::Null,
        }
    };
    serde_json::json!({
        "name": m["name"], "bind_name": "", "base_denom": m["base_denom"],
        "convertible_base_denoms": m["convertible_base_denoms"], "supported_quote_denoms": m["supported_quote_denoms"],
        "approvers": m["approvers"], "executors": m["executors"],
        "ask_fee_info": fee("ask_fee_rate", "ask_fee_account"), "bid_fee_info": fee("bid_fee_rate", "bid_fee_account"),
        "ask_required_attributes": m["ask_required_attributes"], "bid_required_attributes": m["bid_required_attributes"],
        "price_precision": m["price_precision"].as_str().and_then(|x| x.parse::<u128>().ok()).map(|x| x.to_string()),
        "size_increment": m["size_increment"].as_str().and_then(|x| x.parse::<u128>().ok()).map(|x| x.to_string()),
    })
}

// ------------------------------------------------------------------------------------------------
// C12 configuration changes: what an accepted ModifyContract must have satisfied / produced

fn opt_list(m: &Value, k: &str) -> Result<Option<Vec<String>>, ()> {
    match m.get(k) {
        None | Some(Value::Null) => Ok(None),
        Some(Value::Array(a)) => a.iter().map(|x| x.as_str().map(|y| y.to_string()).ok_or(())).collect::<Result<Vec<_>, _>>().map(Some),
        _ => Err(()),
    }
}
fn opt_str(m: &Value, k: &str) -> Result<Option<String>, ()> {
    match m.get(k) {
        None | Some(Value::Null) => Ok(None),
        Some(Value::String(s)) => Ok(Some(s.clone())),
        _ => Err(()),
    }
}

pub fn rates_equal(a: &Option<FeeCfg>, b: &Option<FeeCfg>) -> bool {
    match (a, b) {
        (None, None) => true,
        (Some(x), Some(y)) => match (parse_dec(&x.rate), parse_dec(&y.rate)) {
            // strings beyond 28 significant digits are in the gray zone (DESIGN section 4): a 96-bit
            // decimal cannot tell them apart from their rounding, so their equality is not judged
            (Some(p), Some(q)) if p.form == Form::Gray || q.form == Form::Gray => true,
            (Some(p), Some(q)) => p.eq_val(&q),
            // longer than the oracle reads (same gray zone)
            _ if looks_decimal(&x.rate) && looks_decimal(&y.rate) => true,
            _ => x.rate == y.rate,
        },
        _ => false,
    }
}

/// Returns the list of rules an ACCEPTED ModifyContract broke (empty = fine).
pub fn modify_violations(cfg: &Cfg, after: &Cfg, book: &Book, m: &Value) -> Vec<String> {
    let mut out = vec![];
    let (ap, ex, aa, ba) = match (opt_list(m, "approvers"), opt_list(m, "executors"), opt_list(m, "ask_required_attributes"), opt_list(m, "bid_required_attributes")) {
        (Ok(a), Ok(b), Ok(c), Ok(d)) => (a, b, c, d),
        _ => return vec!["malformed message accepted".into()],
    };
    let (afr, afa, bfr, bfa) = match (opt_str(m, "ask_fee_rate"), opt_str(m, "ask_fee_account"), opt_str(m, "bid_fee_rate"), opt_str(m, "bid_fee_account")) {
        (Ok(a), Ok(b), Ok(c), Ok(d)) => (a, b, c, d),
        _ => return vec!["malformed message accepted".into()],
    };
    let has_asks = book.n_asks() > 0;
    let has_bids = book.n_bids() > 0;
    if has_asks {
        if !rates_equal(&cfg.ask_fee, &after.ask_fee) {
            out.push("ask fee rate changed while an ask is open".into());
        }
        if cfg.ask_attrs != after.ask_attrs {
            out.push("ask required attributes changed while an ask is open".into());
        }
    }
    if has_bids {
        if !rates_equal(&cfg.bid_fee, &after.bid_fee) {
            out.push("bid fee rate changed while a bid is open".into());
        }
        if cfg.bid_attrs != after.bid_attrs {
            out.push("bid required attributes changed while a bid is open".into());
        }
    }
    if (has_asks || has_bids) && !cfg.approvers.iter().all(|a| after.approvers.contains(a)) {
        out.push("approver dropped while an order is open".into());
    }
    if after.approvers.is_empty() && ap.is_some() {
        out.push("approver list set empty".into());
    }
    if after.executors.is_empty() {
        out.push("executor list set empty".into());
    }
    if afr.is_some() != afa.is_some() {
        out.push("half-supplied ask fee pair accepted".into());
    }
    if bfr.is_some() != bfa.is_some() {
        out.push("half-supplied bid fee pair accepted".into());
    }
    // exact installation
    let mut exp = cfg.clone();
    if let Some(a) = ap {
        exp.approvers = a;
    }
    if let Some(e) = ex {
        exp.executors = e;
    }
    if let (Some(r), Some(a)) = (&afr, &afa) {
        exp.ask_fee = if r.is_empty() && a.is_empty() { None } else { Some(FeeCfg { account: a.clone(), rate: r.clone() }) };
    }
    if let (Some(r), Some(a)) = (&bfr, &bfa) {
        exp.bid_fee = if r.is_empty() && a.is_empty() { None } else { Some(FeeCfg { account: a.clone(), rate: r.clone() }) };
    }
    if let Some(x) = aa {
        exp.ask_attrs = x;
    }
    if let Some(x) = ba {
        exp.bid_attrs = x;
    }
    if &exp != after && afr.is_some() == afa.is_some() && bfr.is_some() == bfa.is_some() {
        out.push(format!("resulting configuration is not the previous one with exactly the supplied fields installed: expected {:?} got {:?}", exp, after));
    }
    out
}

/// market parameters that no execute request may change
pub fn market_params(c: &Cfg) -> (String, String, String, Vec<String>, Vec<String>, u128, u128) {
    (c.name.clone(), c.bind_name.clone(), c.base.clone(), c.convs.clone(), c.quotes.clone(), c.prec, c.inc)
}

// ------------------------------------------------------------------------------------------------
// C14 versions (own semver reading; prerelease handling is gray)

#[derive(Clone, Debug, PartialEq)]
pub enum Ver {
    /// plain MAJOR.MINOR.PATCH with optional +build
    Clean(u64, u64, u64),
    /// has a prerelease tag: VersionReq never matches it; only "accepted => effects" is judged
    Pre(u64, u64, u64),
    Malformed,
}
pub fn parse_version(s: &str) -> Ver {
    let (core_pre, _build) = match s.split_once('+') {
        Some((a, b)) => {
            if b.is_empty() || !b.chars().all(|c| c.is_ascii_alphanumeric() || c == '-' || c == '.') || b.split('.').any(|p| p.is_empty()) {
                return Ver::Malformed;
            }
            (a, Some(b))
        }
        None => (s, None),
    };
    let (core, pre) = match core_pre.split_once('-') {
        Some((a, b)) => (a, Some(b)),
        None => (core_pre, None),
    };
    let parts: Vec<&str> = core.split('.').collect();
    if parts.len() != 3 {
        return Ver::Malformed;
    }
    let mut n = [0u64; 3];
    for (i, p) in parts.iter().enumerate() {
        if p.is_empty() || !p.bytes().all(|b| b.is_ascii_digit()) || (p.len() > 1 && p.starts_with('0')) {
            return Ver::Malformed;
        }
        n[i] = match p.parse() {
            Ok(v) => v,
            Err(_) => return Ver::Malformed,
        };
    }
    match pre {
        None => Ver::Clean(n[0], n[1], n[2]),
        Some(p) => {
            if p.is_empty() || p.split('.').any(|x| x.is_empty() || !x.chars().all(|c| c.is_ascii_alphanumeric() || c == '-') || (x.len() > 1 && x.starts_with('0') && x.bytes().all(|b| b.is_ascii_digit()))) {
                Ver::Malformed
            } else {
                Ver::Pre(n[0], n[1], n[2])
            }
        }
    }
}
pub fn ver_ge(v: (u64, u64, u64), min: (u64, u64, u64)) -> bool {
    v >= min
}
pub const MIN_SUPPORTED: (u64, u64, u64) = (0, 16, 2);
pub const BID_FORMAT_CHANGE: (u64, u64, u64) = (0, 19, 1);

/// Is the migrate message itself valid? (pairs complete, rates parseable, addresses valid)
pub fn migrate_msg_valid(m: &Value) -> Parse3 {
    let ap = match opt_list(m, "approvers") {
        Ok(a) => a,
        Err(()) => return Parse3::No,
    };
    if opt_list(m, "ask_required_attributes").is_err() || opt_list(m, "bid_required_attributes").is_err() {
        return Parse3::No;
    }
    if let Some(a) = ap {
        if a.iter().any(|x| !valid_addr(x)) {
            return Parse3::No;
        }
    }
    let mut unclear = false;
    for (rk, ak) in [("ask_fee_rate", "ask_fee_account"), ("bid_fee_rate", "bid_fee_account")] {
        match (opt_str(m, rk), opt_str(m, ak)) {
            (Ok(None), Ok(None)) => {}
            (Ok(Some(r)), Ok(Some(a))) => {
                if r.is_empty() && a.is_empty() {
                    continue;
                }
                match rate_parseable(&r) {
                    Parse3::No => return Parse3::No,
                    Parse3::Unclear => unclear = true,
                    Parse3::Yes => {}
                }
                if !valid_addr(&a) {
                    return Parse3::No;
                }
            }
            _ => return Parse3::No,
        }
    }
    if unclear {
        Parse3::Unclear
    } else {
        Parse3::Yes
    }
}

/// configuration after applying exactly the overrides of a migrate message
pub fn migrate_expected_cfg(cfg: &Cfg, m: &Value) -> Cfg {
    let mut exp = cfg.clone();
    if let Ok(Some(a)) = opt_list(m, "approvers") {
        exp.approvers = a;
    }
    if let (Ok(Some(r)), Ok(Some(a))) = (opt_str(m, "ask_fee_rate"), opt_str(m, "ask_fee_account")) {
        exp.ask_fee = if r.is_empty() && a.is_empty() { None } else { Some(FeeCfg { account: a, rate: r }) };
    }
    if let (Ok(Some(r)), Ok(Some(a))) = (opt_str(m, "bid_fee_rate"), opt_str(m, "bid_fee_account")) {
        exp.bid_fee = if r.is_empty() && a.is_empty() { None } else { Some(FeeCfg { account: a, rate: r }) };
    }
    if let Ok(Some(x)) = opt_list(m, "ask_required_attributes") {
        exp.ask_attrs = x;
    }
    if let Ok(Some(x)) = opt_list(m, "bid_required_attributes") {
        exp.bid_attrs = x;
    }
    exp
}
