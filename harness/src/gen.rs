// Workload generators: configurations (W1), state-aware random steps (W1), hostile field-wise
// mutations (W2), stress regimes (W3).
use crate::exact::*;
use crate::model::{bid_fee_due, restricted};
use crate::rng::Rng;
use crate::sim::*;
use crate::view::*;
use serde_json::{json, Value};

pub const POOL: &[&str] = &["alice", "bobby", "carol", "dave", "exec1", "exec2", "appr1", "appr2", "feea", "feeb"];
pub const RATES: &[&str] = &["0", "0.001", "0.01", "0.015", "0.05", "0.1", "0.25", "0.5", "0.33", "1", "0.0025", "0.125", "0.075", "0.2", "0.9", "0.999", "0.0001", "0.3333", "1.5"];

#[derive(Clone, Debug)]
pub struct Regime {
    pub name: &'static str,
    pub precs: &'static [u32],
    pub ks: &'static [u128],
    pub price_mant_max: u64,
    pub lots_max: u64,
    pub rates: &'static [&'static str],
    pub fee_pct: u64,
    pub hostile_pct: u64,
    pub steps: (u64, u64),
    pub chain_change_pct: u64,
    pub modify_pct: u64,
    pub create_bias: u64, // extra weight on creates (deep books)
    pub pool: usize,
    pub legacy_at: Option<u64>, // step at which open orders are re-keyed to un-hyphenated ids
    pub attrs_pct: u64,
    /// sizes around 2^31 / 2^32 / 2^63 / 2^64 (integer-narrowing boundaries)
    pub narrow: bool,
}

pub const TRADE: Regime = Regime {
    name: "trade", precs: &[0, 0, 0, 0, 1, 1, 2, 3, 4, 6, 9, 18], ks: &[1, 1, 1, 2, 5, 10, 7, 25, 100], price_mant_max: 40, lots_max: 5,
    rates: RATES, fee_pct: 60, hostile_pct: 0, steps: (40, 120), chain_change_pct: 1, modify_pct: 4, create_bias: 0, pool: 10, legacy_at: None, attrs_pct: 40, narrow: false,
};
pub const HOSTILE: Regime = Regime { name: "hostile", hostile_pct: 50, chain_change_pct: 3, ..TRADE };
pub const GRIND: Regime = Regime {
    name: "grind", precs: &[0, 0, 1], ks: &[1, 1, 1, 3, 10], price_mant_max: 12, lots_max: 50,
    rates: &["0.5", "0.33", "0.25", "0.1", "0.05", "1", "0.015", "0.125"], fee_pct: 95, hostile_pct: 0, steps: (80, 200), chain_change_pct: 0, modify_pct: 2, create_bias: 0, pool: 6, legacy_at: None, attrs_pct: 0, narrow: false,
};
pub const DEEP: Regime = Regime { name: "deep", steps: (200, 400), create_bias: 25, lots_max: 8, ..TRADE };
pub const BIG: Regime = Regime {
    name: "big", precs: &[9, 12, 18, 18], ks: &[1, 3, 1000, 1_000_000], price_mant_max: 4_000_000_000, lots_max: 5,
    rates: RATES, fee_pct: 70, hostile_pct: 5, steps: (40, 100), chain_change_pct: 0, modify_pct: 2, create_bias: 0, pool: 10, legacy_at: None, attrs_pct: 20, narrow: false,
};
pub const LEGACY: Regime = Regime { name: "legacy", legacy_at: Some(25), steps: (50, 90), ..TRADE };
pub const NARROW: Regime = Regime { name: "narrow", precs: &[0], ks: &[1], price_mant_max: 12, narrow: true, steps: (40, 90), fee_pct: 70, ..TRADE };
pub const ROLES: Regime = Regime { name: "roles", pool: 4, fee_pct: 90, steps: (40, 100), ..TRADE };

pub fn regime_by_name(n: &str) -> Regime {
    match n {
        "hostile" => HOSTILE,
        "grind" => GRIND,
        "deep" => DEEP,
        "big" => BIG,
        "legacy" => LEGACY,
        "roles" => ROLES,
        "narrow" => NARROW,
        _ => TRADE,
    }
}

pub fn uuid(n: u64) -> String {
    format!("{:08x}-0000-4000-8000-{:012x}", n & 0xffff_ffff, n)
}

#[derive(Clone, Debug)]
pub struct GenCfg {
    pub prec: u32,
    pub inc: u128,
    pub convs: Vec<String>,
    pub quotes: Vec<String>,
    pub approvers: Vec<String>,
    pub executors: Vec<String>,
    pub ask_fee: Option<(String, String)>, // (account, rate)
    pub bid_fee: Option<(String, String)>,
    pub ask_attrs: Vec<String>,
    pub bid_attrs: Vec<String>,
    pub markers: Vec<(String, MarkerKind)>,
    pub pool: Vec<String>,
}

pub fn gen_cfg(r: &mut Rng, rg: &Regime) -> GenCfg {
    let prec = *r.pick(rg.precs);
    let k = *r.pick(rg.ks);
    let inc = k * 10u128.pow(prec);
    let mut convs: Vec<String> = (0..r.below(3)).map(|i| format!("conv{}", i)).collect();
    if r.chance(8) {
        // the contract base may also be listed as convertible: asks in it are still plain
        let at = r.below(convs.len() as u64 + 1) as usize;
        convs.insert(at, "base".to_string());
    }
    let quotes: Vec<String> = (0..1 + { let n = if r.chance(15) { 3 } else { 2 }; r.below(n) }).map(|i| format!("q{}", i)).collect();
    let pool: Vec<String> = POOL[..rg.pool.min(POOL.len())].iter().map(|s| s.to_string()).collect();
    let mut markers = vec![];
    for d in convs.iter().filter(|c| c.as_str() != "base").chain(quotes.iter()).chain(std::iter::once(&"base".to_string())) {
        markers.push((d.clone(), *r.pick(&[MarkerKind::NoMarker, MarkerKind::Coin, MarkerKind::Restricted, MarkerKind::NoMarker, MarkerKind::Coin, MarkerKind::Restricted, MarkerKind::NoMarker, MarkerKind::Coin, MarkerKind::Restricted, MarkerKind::EmptyResponse, MarkerKind::RestrictedFinalized, MarkerKind::Unspecified, MarkerKind::RestrictedGated, MarkerKind::RestrictedGated, MarkerKind::CoinOdd])));
    }
    let mut approvers: Vec<String> = (0..1 + { let n = if r.chance(20) { 4 } else { 2 }; r.below(n) }).map(|_| r.pick(&pool).clone()).collect();
    approvers.dedup();
    let mut executors: Vec<String> = (0..1 + { let n = if r.chance(20) { 4 } else { 2 }; r.below(n) }).map(|_| r.pick(&pool).clone()).collect();
    executors.dedup();
    let ask_fee = if r.chance(rg.fee_pct) { Some((r.pick(&pool).clone(), r.pick(rg.rates).to_string())) } else { None };
    let mut bid_fee = if r.chance(rg.fee_pct) { Some((r.pick(&pool).clone(), r.pick(rg.rates).to_string())) } else { None };
    // one account collecting both fees, often at the same rate (the two transfers of a fill are then alike)
    if let (Some(a), Some(b)) = (&ask_fee, &mut bid_fee) {
        if r.chance(15) {
            b.0 = a.0.clone();
            if r.chance(60) {
                b.1 = a.1.clone();
            }
        }
    }
    let ask_attrs: Vec<String> = if r.chance(rg.attrs_pct) {
        match r.below(5) {
            0 => vec!["kyc".to_string()],
            1 => vec!["kyc".to_string(), "acc".to_string()],
            // a required list may name an attribute more than once; holding it once is holding it
            3 => vec!["kyc".to_string(), "kyc".to_string()],
            4 => vec!["acc".to_string(), "kyc".to_string(), "acc".to_string(), "kyc".to_string()],
            _ => vec!["acc".to_string(), "x".to_string()],
        }
    } else {
        vec![]
    };
    let bid_attrs = if r.chance(rg.attrs_pct) { if r.chance(25) { vec!["kyc".to_string(), "kyc".to_string(), "acc".to_string()] } else { vec!["kyc".to_string(), "acc".to_string()] } } else { vec![] };
    GenCfg { prec, inc, convs, quotes, approvers, executors, ask_fee, bid_fee, ask_attrs, bid_attrs, markers, pool }
}

pub fn inst_msg(c: &GenCfg) -> Value {
    json!({
        "name": "ats", "base_denom": "base",
        "convertible_base_denoms": c.convs, "supported_quote_denoms": c.quotes,
        "approvers": c.approvers, "executors": c.executors,
        "ask_fee_rate": c.ask_fee.as_ref().map(|x| x.1.clone()), "ask_fee_account": c.ask_fee.as_ref().map(|x| x.0.clone()),
        "bid_fee_rate": c.bid_fee.as_ref().map(|x| x.1.clone()), "bid_fee_account": c.bid_fee.as_ref().map(|x| x.0.clone()),
        "ask_required_attributes": c.ask_attrs, "bid_required_attributes": c.bid_attrs,
        "price_precision": c.prec.to_string(), "size_increment": c.inc.to_string(),
    })
}

/// ops that set up external chain state + instantiate
pub fn setup_ops(r: &mut Rng, c: &GenCfg) -> Vec<Op> {
    let mut ops = vec![];
    for (d, k) in &c.markers {
        ops.push(Op::SetMarker { denom: d.clone(), kind: *k });
    }
    for a in &c.pool {
        // accounts may carry the same attribute name more than once (multi-valued attributes)
        let names: Vec<String> = match r.below(20) {
            0..=12 => vec!["kyc".into(), "acc".into(), "x".into()],
            13 => vec!["KYC".into(), "Acc".into(), "ky".into(), "ac".into(), " kyc".into(), "kyc ".into(), "".into(), "X".into()], // other case, shorter names, padding
            15 => vec!["kyc".into()],
            16 => vec!["kyc".into(), "kyc".into()],
            17 => vec!["acc".into(), "acc".into(), "x".into()],
            18 => vec!["kyc".into(), "acc".into(), "acc".into(), "kyc".into()],
            14 => vec!["notkyc".into(), "kyc2".into(), "acc".into(), "x".into(), "account".into()], // names that merely CONTAIN a required name
            _ => vec![],
        };
        ops.push(Op::SetAttrs { account: a.clone(), names });
    }
    ops.push(Op::Inst { msg: inst_msg(c) });
    ops
}

fn fmt_price(m: u128, sc: u32) -> String {
    if sc == 0 {
        return m.to_string();
    }
    let d = 10u128.pow(sc);
    format!("{}.{:0width$}", m / d, m % d, width = sc as usize)
}

pub fn gen_price(r: &mut Rng, rg: &Regime, prec: u32, size_hint: u128) -> String {
    // keep price mantissa * size (and rate mantissa * total, rates having <= 6 digits) inside the
    // exact-decimal domain (2^95)
    let cap = (1u128 << 74) / size_hint.max(1);
    let mmax = (rg.price_mant_max as u128).min(cap).max(1);
    let mmax = if r.chance(12) { (mmax * 125).min(cap).max(1) } else { mmax };
    let m = 1 + r.below128(mmax);
    let sc = if prec == 0 || r.chance(45) { 0 } else { r.below(prec.min(9) as u64 + 1) as u32 };
    fmt_price(m, sc)
}

/// the same price written with zeros added to its fraction (up to 28 places when the spelled mantissa
/// still fits a 96-bit decimal): numerically equal, textually different
pub fn pad_price(r: &mut Rng, p: &str) -> String {
    let (i, f) = match p.split_once('.') {
        Some((i, f)) => (i.to_string(), f.to_string()),
        None => (p.to_string(), String::new()),
    };
    if !i.bytes().all(|b| b.is_ascii_digit()) || !f.bytes().all(|b| b.is_ascii_digit()) || i.is_empty() {
        return p.to_string();
    }
    let want = *r.pick(&[f.len() + 1, 9, 18, 19, 27, 28, 28]);
    let int_digits = i.trim_start_matches('0').len();
    // keep the spelled mantissa below 7.9e28: at most 28 digits in all, or 29 starting with 1..6
    let max_frac = if int_digits == 0 { 28 } else { (28usize).saturating_sub(int_digits) + if i.trim_start_matches('0').as_bytes()[0] < b'7' { 1 } else { 0 } };
    let n = want.min(max_frac).min(28);
    if n <= f.len() {
        return p.to_string();
    }
    format!("{}.{}{}", i, f, "0".repeat(n - f.len()))
}

pub fn exec_op(sender: &str, funds: Vec<(String, u128)>, msg: Value) -> Op {
    Op::Exec { sender: sender.to_string(), funds, msg }
}

fn funds_for(w: &World, denom: &str, amt: u128) -> Vec<(String, u128)> {
    if restricted(w, denom) {
        vec![]
    } else {
        vec![(denom.to_string(), amt)]
    }
}

const NARROW_SIZES: &[u128] = &[(1 << 31) - 1, 1 << 31, (1 << 32) - 1, 1 << 32, (1 << 32) + 1, (1 << 63) - 1, 1 << 63, (1u128 << 64) - 1, 1u128 << 64, (1u128 << 64) + 5, 3 * (1u128 << 32), (1u128 << 64) + (1u128 << 32)];

pub struct GenState {
    pub next_id: u64,
    pub id_base: u64,
}

fn fresh_id(r: &mut Rng, g: &mut GenState, book: &Book, for_ask: bool) -> String {
    // deliberately share ids across the two sides
    if r.chance(20) {
        let other: Vec<&String> = if for_ask { book.bids.keys().collect() } else { book.asks.keys().collect() };
        let mine = if for_ask { book.asks.contains_key("") } else { false };
        let _ = mine;
        if !other.is_empty() {
            let id = (*r.pick(&other)).clone();
            let taken = if for_ask { book.asks.contains_key(&id) } else { book.bids.contains_key(&id) };
            if !taken && crate::model::canon_uuid(&id) {
                return id;
            }
        }
    }
    if r.chance(12) {
        // the canonical hyphenated spelling of an id that sits on the book under its legacy un-hyphenated key
        let legacy: Vec<&String> = book.asks.keys().chain(book.bids.keys()).filter(|k| k.len() == 32 && k.bytes().all(|b| b.is_ascii_hexdigit())).collect();
        if !legacy.is_empty() {
            let k = *r.pick(&legacy);
            let k = if r.chance(70) { k.to_lowercase() } else { k.to_string() };
            let id = format!("{}-{}-{}-{}-{}", &k[0..8], &k[8..12], &k[12..16], &k[16..20], &k[20..32]);
            let taken = if for_ask { book.asks.contains_key(&id) } else { book.bids.contains_key(&id) };
            if !taken {
                return id;
            }
        }
    }
    g.next_id += 1;
    uuid(g.id_base + g.next_id)
}

/// One state-aware random request (mostly legal; boundaries included)
pub fn gen_step(r: &mut Rng, rg: &Regime, w: &World, g: &mut GenState) -> Op {
    let cfg = match read_cfg(w) {
        Some(c) => c,
        None => return exec_op("alice", vec![], json!({"cancel_ask": {"id": uuid(1)}})),
    };
    let book = Book::read(w);
    let pool: Vec<String> = POOL[..rg.pool.min(POOL.len())].iter().map(|s| s.to_string()).collect();
    let exec = if cfg.executors.is_empty() { "exec1".to_string() } else { r.pick(&cfg.executors).clone() };
    let asks: Vec<&Ask> = book.asks.values().collect();
    let bids: Vec<&Bid> = book.bids.values().collect();
    let mut kind = r.below(100);
    if rg.create_bias > 0 && r.chance(rg.create_bias) {
        kind = r.below(36);
    }
    if r.chance(rg.modify_pct) {
        return gen_modify(r, &cfg, &book, &pool, &exec);
    }
    if kind < 18 || (asks.is_empty() && kind < 40) {
        let base = if !cfg.convs.is_empty() && r.chance(50) { r.pick(&cfg.convs).clone() } else { cfg.base.clone() };
        let size = if rg.narrow { *r.pick(NARROW_SIZES) } else { cfg.inc * (1 + { let lm = if r.chance(10) { rg.lots_max * 8 } else { rg.lots_max }; r.below(lm) } as u128) };
        let sender = r.pick(&pool).clone();
        let quote = if cfg.quotes.is_empty() { "q0".to_string() } else { r.pick(&cfg.quotes).clone() };
        let id = fresh_id(r, g, &book, true);
        let price = gen_price(r, rg, cfg.prec as u32, size);
        let price = if r.chance(4) { pad_price(r, &price) } else { price };
        return exec_op(&sender, funds_for(w, &base, size), json!({"create_ask": {"id": id, "base": base, "quote": quote, "price": price, "size": size.to_string()}}));
    }
    if kind < 36 || (bids.is_empty() && kind < 60) {
        let size = if rg.narrow { *r.pick(NARROW_SIZES) } else { cfg.inc * (1 + { let lm = if r.chance(10) { rg.lots_max * 8 } else { rg.lots_max }; r.below(lm) } as u128) };
        // bias towards crossing an existing ask
        let price = if !asks.is_empty() && r.chance(45) { r.pick(&asks).price.clone() } else { gen_price(r, rg, cfg.prec as u32, size) };
        let price = if r.chance(4) { pad_price(r, &price) } else { price };
        let p = match parse_dec(&price) {
            Some(p) => p,
            None => return exec_op(&exec, vec![], json!({"expire_bid": {"id": uuid(1)}})),
        };
        let total = match p.mul_int(size) {
            Some(t) => t,
            None => size,
        };
        let quote = if cfg.quotes.is_empty() { "q0".to_string() } else { r.pick(&cfg.quotes).clone() };
        let fee = bid_fee_due(&cfg, total).unwrap_or(0);
        let feej = if fee > 0 || r.chance(20) { json!({"denom": quote, "amount": fee.to_string()}) } else { Value::Null };
        let sender = r.pick(&pool).clone();
        let id = fresh_id(r, g, &book, false);
        return exec_op(&sender, funds_for(w, &quote, total + fee), json!({"create_bid": {"id": id, "base": cfg.base, "fee": feej, "price": price, "quote": quote, "quote_size": total.to_string(), "size": size.to_string()}}));
    }
    if kind < 46 && !asks.is_empty() && !cfg.approvers.is_empty() && r.chance(12) {
        // approval attempts on asks of ANY class (plain, pending, already approved): only pending may pass
        let a = *r.pick(&asks);
        let ap = match &a.class {
            AskClass::Ready { approver, .. } if r.chance(60) => approver.clone(),
            _ => r.pick(&cfg.approvers).clone(),
        };
        return exec_op(&ap, funds_for(w, &cfg.base, a.size), json!({"approve_ask": {"id": a.id, "base": cfg.base, "size": a.size.to_string()}}));
    }
    if kind < 46 {
        let pend: Vec<&&Ask> = asks.iter().filter(|a| a.class == AskClass::Pending).collect();
        if !pend.is_empty() && !cfg.approvers.is_empty() {
            let a = **r.pick(&pend);
            let ap = r.pick(&cfg.approvers).clone();
            return exec_op(&ap, funds_for(w, &cfg.base, a.size), json!({"approve_ask": {"id": a.id, "base": cfg.base, "size": a.size.to_string()}}));
        }
    }
    if kind < 75 && !asks.is_empty() && !bids.is_empty() {
        let (a, b) = match crate::probes::crossing_pair(&book, r) {
            Some(p) if r.chance(85) => p,
            _ => (*r.pick(&asks), *r.pick(&bids)),
        };
        let price = if r.chance(50) { a.price.clone() } else { b.price.clone() };
        let price = if r.chance(8) { pad_price(r, &price) } else { price };
        let arem = a.size;
        let brem = b.rem_base().max(0) as u128;
        let m = arem.min(brem).max(1);
        let size = if rg.narrow && r.chance(60) {
            let c = *r.pick(&[1u128 << 31, 1 << 32, (1 << 32) + 1, 1u128 << 63, 1u128 << 64, (1u128 << 64) - 1, 1]);
            c.min(m)
        } else { match r.below(5) {
            0 => m,
            1 => 1 + r.below128(m),
            2 => (cfg.inc * (1 + r.below(3) as u128)).min(m),
            3 => {
                // a non-lot size that still totals to an integer
                let sc = parse_dec(&price).map_or(0, |p| p.scale);
                let step = 10u128.pow(sc.min(18));
                if step <= m { step * (1 + r.below128(m / step)) } else { m }
            }
            _ => m + r.below(2) as u128,
        } };
        return exec_op(&exec, vec![], json!({"execute_match": {"ask_id": a.id, "bid_id": b.id, "price": price, "size": size.to_string()}}));
    }
    if kind < 83 && !asks.is_empty() {
        let a = *r.pick(&asks);
        let lots = (a.size / cfg.inc).max(1);
        let size = if r.chance(25) { Value::Null } else if rg.narrow { json!((*r.pick(&[1u128, 1 << 31, 1 << 32, (1 << 32) - 1, 1u128 << 63])).min(a.size).to_string()) } else { json!((cfg.inc * (1 + r.below128(lots.min(4)))).to_string()) };
        return exec_op(&exec, vec![], json!({"reject_ask": {"id": a.id, "size": size}}));
    }
    if kind < 91 && !bids.is_empty() {
        let b = *r.pick(&bids);
        let lots = (b.rem_base().max(0) as u128 / cfg.inc).max(1);
        let size = if r.chance(25) { Value::Null } else if rg.narrow { json!((*r.pick(&[1u128, 1 << 31, 1 << 32, (1 << 32) - 1, 1u128 << 63])).min(b.rem_base().max(1) as u128).to_string()) } else { json!((cfg.inc * (1 + r.below128(lots.min(4)))).to_string()) };
        return exec_op(&exec, vec![], json!({"reject_bid": {"id": b.id, "size": size}}));
    }
    if kind < 94 && !asks.is_empty() {
        let a = *r.pick(&asks);
        if r.chance(50) {
            return exec_op(&a.owner, vec![], json!({"cancel_ask": {"id": a.id}}));
        }
        return exec_op(&exec, vec![], json!({"expire_ask": {"id": a.id}}));
    }
    if kind < 97 && !bids.is_empty() {
        let b = *r.pick(&bids);
        if r.chance(50) {
            return exec_op(&b.owner, vec![], json!({"cancel_bid": {"id": b.id}}));
        }
        return exec_op(&exec, vec![], json!({"expire_bid": {"id": b.id}}));
    }
    gen_modify(r, &cfg, &book, &pool, &exec)
}

fn rate_variant(r: &mut Rng, rate: &str) -> String {
    if r.chance(30) {
        // differs from the stored rate only beyond its last written decimal
        let base = if rate.contains('.') { rate.to_string() } else { format!("{}.", rate) };
        return format!("{}{}", base, r.pick(&["4", "04", "49", "001", "0001"]));
    }
    match r.below(5) {
        0 => rate.to_string(),
        1 => if rate.contains('.') { format!("{}0", rate) } else { format!("{}.0", rate) },
        2 => format!("0{}", rate),
        3 => if rate.contains('.') { format!("{}00", rate) } else { format!("{}.00", rate) },
        _ => r.pick(RATES).to_string(),
    }
}

pub fn gen_modify(r: &mut Rng, cfg: &Cfg, book: &Book, pool: &[String], exec: &str) -> Op {
    let mut m = serde_json::Map::new();
    let has_asks = book.n_asks() > 0;
    let has_bids = book.n_bids() > 0;
    // a mix of requests that should pass and requests that must not
    if r.chance(35) {
        let mut ap = cfg.approvers.clone();
        match r.below(4) {
            0 => ap.push(r.pick(pool).clone()),
            1 => {
                if ap.len() > 1 || !(has_asks || has_bids) {
                    ap.pop();
                    if ap.is_empty() {
                        ap.push(r.pick(pool).clone());
                    }
                }
            }
            2 => ap.reverse(),
            _ => ap = vec![r.pick(pool).clone()],
        }
        if r.chance(6) {
            // blank entries: alone (a list that is not empty as a list) or among real addresses
            if r.chance(50) { ap = vec![r.pick_s(&["", " ", "  "]).to_string()]; } else { ap.push(r.pick_s(&["", " "]).to_string()); }
        }
        m.insert("approvers".into(), json!(ap));
    }
    if r.chance(25) {
        let mut ex = cfg.executors.clone();
        match r.below(3) {
            0 => ex.push(r.pick(pool).clone()),
            1 => {
                if ex.len() > 1 {
                    ex.remove(0);
                }
            }
            _ => ex = vec![r.pick(pool).clone(), exec.to_string()],
        }
        if r.chance(6) {
            if r.chance(50) { ex = vec![r.pick_s(&["", " ", "  "]).to_string()]; } else { ex.push(r.pick_s(&["", " "]).to_string()); }
        }
        m.insert("executors".into(), json!(ex));
    }
    for (side, cur, busy) in [("ask", &cfg.ask_fee, has_asks), ("bid", &cfg.bid_fee, has_bids)] {
        if r.chance(45) {
            let (rate, acct) = match cur {
                Some(f) => {
                    if busy && r.chance(80) {
                        (rate_variant_equal(r, &f.rate), r.pick(pool).clone())
                    } else if r.chance(15) {
                        (String::new(), String::new())
                    } else {
                        (rate_variant(r, &f.rate), r.pick(pool).clone())
                    }
                }
                None => {
                    if busy && r.chance(70) {
                        continue;
                    }
                    (r.pick(RATES).to_string(), r.pick(pool).clone())
                }
            };
            m.insert(format!("{}_fee_rate", side), json!(rate));
            m.insert(format!("{}_fee_account", side), json!(acct));
        }
    }
    if r.chance(if has_asks { 6 } else { 25 }) {
        m.insert("ask_required_attributes".into(), json!(if r.chance(50) { vec!["kyc"] } else { vec![] }));
    }
    if r.chance(if has_bids { 6 } else { 25 }) {
        m.insert("bid_required_attributes".into(), json!(if r.chance(50) { vec!["kyc", "acc"] } else { vec![] }));
    }
    exec_op(exec, vec![], json!({"modify_contract": Value::Object(m)}))
}

fn rate_variant_equal(r: &mut Rng, rate: &str) -> String {
    match r.below(5) {
        0 => rate.to_string(),
        // padded out to 30 fractional digits: same value, longer than a 96-bit decimal spells it
        4 => { let (i, f) = rate.split_once('.').unwrap_or((rate, "")); if f.len() < 30 && f.bytes().all(|b| b.is_ascii_digit()) { format!("{}.{}{}", i, f, "0".repeat(30 - f.len())) } else { rate.to_string() } }
        1 => if rate.contains('.') { format!("{}0", rate) } else { format!("{}.0", rate) },
        2 => format!("0{}", rate),
        _ => if rate.contains('.') { format!("{}000", rate) } else { format!("{}.000", rate) },
    }
}

/// occasional change of external chain state (marker table, attribute table)
pub fn gen_chain_change(r: &mut Rng, w: &World, pool: &[String]) -> Op {
    if r.chance(50) {
        let denoms: Vec<String> = w.chain.markers.keys().cloned().collect();
        if !denoms.is_empty() {
            return Op::SetMarker { denom: r.pick(&denoms).clone(), kind: *r.pick(&[MarkerKind::NoMarker, MarkerKind::Coin, MarkerKind::Restricted, MarkerKind::RestrictedFinalized, MarkerKind::EmptyResponse, MarkerKind::Unspecified, MarkerKind::RestrictedGated, MarkerKind::CoinOdd]) };
        }
    }
    if r.chance(15) {
        return Op::SetAttrFail { on: !w.chain.attr_query_fails };
    }
    let names: Vec<String> = match r.below(8) {
        0 => vec![],
        6 => vec!["Kyc".into(), "ACC".into(), "k".into(), "a".into(), "kyc\n".into(), "".into()],
        1 => vec!["kyc".into()],
        2 => vec!["kyc".into(), "kyc".into()],
        3 => vec!["acc".into(), "x".into(), "acc".into()],
        5 => vec!["mykyc".into(), "kyc.old".into(), "acc".into(), "xx".into()],
        _ => vec!["kyc".into(), "acc".into(), "x".into()],
    };
    Op::SetAttrs { account: r.pick(pool).clone(), names }
}

// ------------------------------------------------------------------------------------------------
// W2: hostile field-wise mutation of an otherwise valid request

fn bump(v: &mut Value, k: &str, d: i128) {
    if let Some(x) = v.get(k).and_then(|x| x.as_str()).and_then(|x| x.parse::<u128>().ok()) {
        let n = if d >= 0 { x.saturating_add(d as u128) } else { x.saturating_sub((-d) as u128) };
        v[k] = json!(n.to_string());
    }
}
fn bad_price(r: &mut Rng, p: &str, prec: usize) -> String {
    let int = p.split('.').next().unwrap_or("1");
    match r.below(14) {
        0 => "0".into(),
        1 => "0.0".into(),
        2 => "abc".into(),
        3 => "".into(),
        4 => if p.contains('.') { format!("{}{}1", p, "0".repeat(prec)) } else { format!("{}.{}1", p, "0".repeat(prec)) },
        5 => "1e3".into(),
        6 => format!("{}.{}1", int, "0".repeat(29)),
        7 => format!("-{}", p),
        8 => format!("+{}", p),
        9 => format!(" {}", p),
        10 => format!("{}.{}1", int, "0".repeat(27)),
        11 => "79228162514264337593543950336".into(),
        12 => format!("{}.", int),
        _ => format!("{}{}", p, if p.contains('.') { "0" } else { ".0" }),
    }
}
fn bad_id(r: &mut Rng, id: &str, existing: &[String]) -> String {
    match r.below(7) {
        0 => id.to_uppercase(),
        1 => id.replace('-', ""),
        2 => format!("{{{}}}", id),
        3 => format!("urn:uuid:{}", id),
        4 => "zz".into(),
        5 => "".into(),
        _ => if existing.is_empty() { id.to_string() } else { r.pick(existing).clone() },
    }
}
const BIG_INTS: &[&str] = &["79228162514264337593543950336", "39614081257132168796771975168", "1267650600228229401496703205376"];
const HUGE_INTS: &[&str] = &["79228162514264337593543950336", "340282366920938463463374607431768211455", "1267650600228229401496703205376"];

/// a name that is not `s` but looks like it: another letter case, one character more or less, padding
fn alike(r: &mut Rng, s: &str) -> String {
    match r.below(6) {
        0 => "nope".to_string(),
        1 => s.to_uppercase(),
        2 => format!("{}x", s),
        3 if s.len() > 1 => s[..s.len() - 1].to_string(),
        4 => format!(" {}", s),
        _ => format!("{}2", s),
    }
}

pub fn mutate(r: &mut Rng, w: &World, op: &mut Op) {
    let cfg = match read_cfg(w) {
        Some(c) => c,
        None => return,
    };
    let book = Book::read(w);
    let existing: Vec<String> = book.asks.keys().chain(book.bids.keys()).cloned().collect();
    let prec = cfg.prec as usize;
    let (sender, funds, msg) = match op {
        Op::Exec { sender, funds, msg } => (sender, funds, msg),
        _ => return,
    };
    let kind = exec_kind(msg);
    let body = match msg.get_mut(&kind) {
        Some(b) => b,
        None => return,
    };
    if r.chance(7) {
        // structural malformations of the JSON itself
        if let Some(o) = body.as_object_mut() {
            let keys: Vec<String> = o.keys().cloned().collect();
            if !keys.is_empty() {
                let k = r.pick(&keys).clone();
                match r.below(4) {
                    0 => {
                        o.remove(&k);
                    }
                    1 => {
                        if o.contains_key("size") {
                            o.insert("size".into(), json!("0"));
                        }
                    }
                    2 => {
                        if o.contains_key("size") {
                            o.insert("size".into(), json!(5));
                        }
                    }
                    _ => {
                        o.insert(k, Value::Null);
                    }
                }
            }
        }
        return;
    }
    let which = r.below(14);
    match kind.as_str() {
        "create_ask" => match which {
            0 => match funds.first_mut() { Some(c) => c.1 += 1, None => funds.push((body["base"].as_str().unwrap_or("base").to_string(), 1)) },
            1 => if let Some(c) = funds.first_mut() { c.1 = c.1.saturating_sub(1) },
            2 => funds.push(("q0".into(), 1)),
            3 => funds.clear(),
            4 if r.chance(40) => {
                // the ask-side twin: price one decimal finer than the precision, size x 10 (funds to match)
                let p = body["price"].as_str().unwrap_or("1").to_string();
                let size = body["size"].as_str().and_then(|x| x.parse::<u128>().ok()).unwrap_or(0);
                if let (Some(fp), Some(sz)) = (finer_price(&p, prec, 1 + r.below(9)), size.checked_mul(10)) {
                    if sz < (1u128 << 100) {
                        body["price"] = json!(fp);
                        body["size"] = json!(sz.to_string());
                        for c in funds.iter_mut() { c.1 = sz; }
                    }
                }
            }
            4 => { let p = body["price"].as_str().unwrap_or("1").to_string(); body["price"] = json!(bad_price(r, &p, prec)); }
            5 => { bump(body, "size", 1); for c in funds.iter_mut() { c.1 += 1; } }
            6 => { let d = alike(r, body["base"].as_str().unwrap_or("base")); body["base"] = json!(d.clone()); for c in funds.iter_mut() { c.0 = d.clone(); } }
            7 => body["quote"] = json!(if r.chance(50) { alike(r, body["quote"].as_str().unwrap_or("q0")) } else { String::new() }),
            13 if r.chance(50) => { body["base"] = json!(""); }
            8 | 9 => { let id = body["id"].as_str().unwrap_or("").to_string(); body["id"] = json!(bad_id(r, &id, &existing)); }
            10 => if let Some(c) = funds.first_mut() { c.0 = "q0".into() },
            11 => *sender = "noattr".into(),
            12 => { let b = r.pick(BIG_INTS).to_string(); body["size"] = json!(b.clone()); if let Some(c) = funds.first_mut() { c.1 = b.parse::<u128>().unwrap_or(1).min(1u128 << 100) } }
            _ => { if let Some(c) = funds.first().cloned() { funds.push(c); } }
        },
        "create_bid" => match which {
            0 => match funds.first_mut() { Some(c) => c.1 += 1, None => funds.push((body["quote"].as_str().unwrap_or("q0").to_string(), 1)) },
            1 => if let Some(c) = funds.first_mut() { c.1 = c.1.saturating_sub(1) },
            2 => funds.push(("base".into(), 1)),
            3 if r.chance(40) && body["fee"].is_null() => {
                // a price one decimal finer than the precision allows, in an otherwise coherent request: ten times
                // the size, so that price x size is still whole, quote size and funds to match - only the
                // precision rule stands between this request and the book
                let p = body["price"].as_str().unwrap_or("1").to_string();
                let size = body["size"].as_str().and_then(|x| x.parse::<u128>().ok()).unwrap_or(0);
                if let Some(fp) = finer_price(&p, prec, 1 + r.below(9)) {
                    if let (Some(sz), Some(d)) = (size.checked_mul(10), crate::exact::parse_dec(&fp)) {
                        if let Some(total) = d.mul_int(sz) {
                            if total < (1u128 << 100) {
                                body["price"] = json!(fp);
                                body["size"] = json!(sz.to_string());
                                body["quote_size"] = json!(total.to_string());
                                for c in funds.iter_mut() { c.1 = total; }
                            }
                        }
                    }
                }
            }
            3 => { let p = body["price"].as_str().unwrap_or("1").to_string(); body["price"] = json!(bad_price(r, &p, prec)); }
            4 => bump(body, "size", 1),
            5 => { bump(body, "quote_size", 1); for c in funds.iter_mut() { c.1 += 1; } }
            6 => {
                if body["fee"].is_null() {
                    body["fee"] = json!({"denom": body["quote"], "amount": "1"});
                    for c in funds.iter_mut() { c.1 += 1; }
                } else if r.chance(50) {
                    bump(&mut body["fee"], "amount", 1);
                    for c in funds.iter_mut() { c.1 += 1; }
                } else if r.chance(50) {
                    body["fee"]["denom"] = json!("base");
                } else {
                    bump(&mut body["fee"], "amount", -1);
                    for c in funds.iter_mut() { c.1 = c.1.saturating_sub(1); }
                }
            }
            7 => {
                if let Some(a) = body["fee"]["amount"].as_str().and_then(|x| x.parse::<u128>().ok()) {
                    body["fee"] = Value::Null;
                    for c in funds.iter_mut() { c.1 = c.1.saturating_sub(a); }
                }
            }
            8 | 9 => { let id = body["id"].as_str().unwrap_or("").to_string(); body["id"] = json!(bad_id(r, &id, &existing)); }
            10 => body["base"] = json!(match r.below(4) { 0 => "conv0".to_string(), 1 => "nope".to_string(), 2 => alike(r, "base"), _ => String::new() }),
            13 if r.chance(50) => { if r.chance(50) { body["quote"] = json!(""); } else { body["quote_size"] = json!("0"); } }
            11 => { let d = alike(r, body["quote"].as_str().unwrap_or("q0")); body["quote"] = json!(d.clone()); for c in funds.iter_mut() { c.0 = d.clone(); } if !body["fee"].is_null() { body["fee"]["denom"] = json!(d); } }
            12 => *sender = "noattr".into(),
            _ => { let b = r.pick(HUGE_INTS).to_string(); body["size"] = json!(b); }
        },
        "approve_ask" => match which % 8 {
            0 => { bump(body, "size", 1); for c in funds.iter_mut() { c.1 += 1; } }
            1 => { bump(body, "size", -1); for c in funds.iter_mut() { c.1 = c.1.saturating_sub(1); } }
            2 => match funds.first_mut() { Some(c) => c.1 += 1, None => funds.push(("base".into(), 1)) },
            3 => if let Some(c) = funds.first_mut() { c.1 = c.1.saturating_sub(1) },
            4 => body["base"] = json!(if r.chance(25) { String::new() } else if cfg.convs.is_empty() { "nope".to_string() } else { cfg.convs[0].clone() }),
            5 => *sender = r.pick(POOL).to_string(),
            6 => { let id = body["id"].as_str().unwrap_or("").to_string(); body["id"] = json!(bad_id(r, &id, &existing)); }
            _ => funds.clear(),
        },
        "execute_match" => match which % 9 {
            0 => bump(body, "size", 1),
            1 => bump(body, "size", -1),
            2 => { let p = body["price"].as_str().unwrap_or("1").to_string(); body["price"] = json!(bad_price(r, &p, prec)); }
            3 => *sender = r.pick(POOL).to_string(),
            4 => funds.push(("base".into(), 1)),
            5 => { let id = body["ask_id"].as_str().unwrap_or("").to_string(); body["ask_id"] = json!(bad_id(r, &id, &existing)); }
            6 => { let id = body["bid_id"].as_str().unwrap_or("").to_string(); body["bid_id"] = json!(bad_id(r, &id, &existing)); }
            7 => body["size"] = json!("0"),
            _ => body["size"] = json!(r.pick(HUGE_INTS).to_string()),
        },
        "cancel_ask" | "cancel_bid" | "expire_ask" | "expire_bid" | "reject_ask" | "reject_bid" => match which % 7 {
            0 => *sender = r.pick(POOL).to_string(),
            1 => funds.push(("base".into(), 1)),
            2 => { let id = body["id"].as_str().unwrap_or("").to_string(); body["id"] = json!(bad_id(r, &id, &existing)); }
            3 => if kind.starts_with("reject") { body["size"] = json!((cfg.inc + 1).to_string()) },
            4 => if kind.starts_with("reject") { body["size"] = json!("0") },
            5 => if kind.starts_with("reject") { body["size"] = json!(r.pick(BIG_INTS).to_string()) },
            _ => if kind.starts_with("reject") { bump(body, "size", 1) },
        },
        "modify_contract" => match which % 11 {
            9 => body["executors"] = json!([r.pick_s(&["", " "])]),
            10 => body["approvers"] = json!(["", " "]),
            0 => body["approvers"] = json!([]),
            1 => body["executors"] = json!([]),
            2 => { body["ask_fee_rate"] = json!("0.1"); if let Some(o) = body.as_object_mut() { o.remove("ask_fee_account"); } }
            3 => { body["bid_fee_account"] = json!("feea"); if let Some(o) = body.as_object_mut() { o.remove("bid_fee_rate"); } }
            4 => { body["ask_fee_rate"] = json!("abc"); body["ask_fee_account"] = json!("feea"); }
            5 => { body["bid_fee_rate"] = json!(r.pick(RATES).to_string()); body["bid_fee_account"] = json!("feeb"); }
            6 => *sender = r.pick(POOL).to_string(),
            7 => { body["ask_fee_rate"] = json!(""); body["ask_fee_account"] = json!(""); }
            _ => body["approvers"] = json!([r.pick(POOL)]),
        },
        _ => {}
    }
}

/// `p` with its fraction padded to `prec` places and one more non-zero digit appended
fn finer_price(p: &str, prec: usize, d: u64) -> Option<String> {
    if !p.chars().all(|c| c.is_ascii_digit() || c == '.') || p.matches('.').count() > 1 || prec > 27 {
        return None;
    }
    let (i, f) = match p.split_once('.') {
        Some((i, f)) => (i.to_string(), f.to_string()),
        None => (p.to_string(), String::new()),
    };
    if f.len() > prec || i.is_empty() {
        return None;
    }
    Some(format!("{}.{:0<width$}{}", i, f, d, width = prec))
}
