// W6: bounded exhaustive exploration of SHORT histories over a small request alphabet, through the
// real entry points, with every monitor on at every step. Random histories rarely repeat the same
// order through four or five particular operations; this enumerates all of them up to a depth for a
// few tiny markets (small sizes so that fee roundings, ties, non-lot remainders and closures all occur).
use crate::engine::*;
use crate::sim::*;
use crate::stats::*;
use crate::view::*;
use serde_json::{json, Value};
use std::collections::BTreeMap;

#[derive(Clone)]
pub struct Tiny {
    pub name: &'static str,
    pub prec: u32,
    pub inc: u128,
    pub ask_fee: Option<&'static str>,
    pub bid_fee: Option<&'static str>,
    pub markers: [MarkerKind; 3], // base, conv0, q0
    pub asks: Vec<(&'static str, &'static str, &'static str, u128)>, // (owner, base, price, size)
    pub bids: Vec<(&'static str, &'static str, u128)>,               // (owner, price, size)
}

pub fn tiny_markets() -> Vec<Tiny> {
    use MarkerKind::*;
    vec![
        Tiny { name: "fees-half", prec: 0, inc: 1, ask_fee: Some("0.5"), bid_fee: Some("0.5"), markers: [NoMarker, NoMarker, NoMarker],
            asks: vec![("alice", "base", "1", 5), ("carol", "conv0", "2", 3)], bids: vec![("bobby", "2", 5), ("dave", "1", 3), ("feeb", "3", 2)] },
        Tiny { name: "lots-of-two", prec: 0, inc: 2, ask_fee: None, bid_fee: Some("0.25"), markers: [NoMarker, NoMarker, NoMarker],
            asks: vec![("alice", "base", "3", 6), ("carol", "conv0", "3", 4)], bids: vec![("bobby", "5", 6), ("carol", "3", 4)] },
        Tiny { name: "precision-one", prec: 1, inc: 10, ask_fee: Some("0.1"), bid_fee: Some("0.1"), markers: [Restricted, Coin, Restricted],
            asks: vec![("alice", "base", "0.5", 10), ("carol", "conv0", "1.5", 10)], bids: vec![("bobby", "1.5", 10), ("alice", "0.5", 20)] },
        Tiny { name: "same-account", prec: 0, inc: 1, ask_fee: Some("0.33"), bid_fee: Some("0.33"), markers: [Coin, Restricted, NoMarker],
            asks: vec![("exec1", "conv0", "2", 4), ("exec1", "base", "2", 3)], bids: vec![("exec1", "3", 4), ("exec1", "2", 5)] },
    ]
}

fn uuid(n: u64) -> String {
    format!("{:08x}-0000-4000-8000-{:012x}", n, n)
}

fn funds_for(w: &World, denom: &str, amt: u128) -> Vec<(String, u128)> {
    if crate::model::restricted(w, denom) {
        vec![]
    } else {
        vec![(denom.to_string(), amt)]
    }
}

fn setup(t: &Tiny, opts: &Opts, st: &mut Stats) -> History {
    let mut h = History::new(&format!("W6:{}", t.name), 3);
    for (d, k) in [("base", t.markers[0]), ("conv0", t.markers[1]), ("q0", t.markers[2])] {
        h.step(Op::SetMarker { denom: d.into(), kind: k }, opts, st);
    }
    let approver = if t.name == "same-account" { "exec1" } else { "appr1" };
    let msg = json!({
        "name": "ats", "base_denom": "base", "convertible_base_denoms": ["conv0"], "supported_quote_denoms": ["q0"],
        "approvers": [approver], "executors": ["exec1"],
        "ask_fee_rate": t.ask_fee, "ask_fee_account": t.ask_fee.map(|_| if t.name == "same-account" { "exec1" } else { "feea" }),
        "bid_fee_rate": t.bid_fee, "bid_fee_account": t.bid_fee.map(|_| if t.name == "same-account" { "exec1" } else { "feeb" }),
        "ask_required_attributes": [], "bid_required_attributes": [],
        "price_precision": t.prec.to_string(), "size_increment": t.inc.to_string(),
    });
    h.step(Op::Inst { msg }, opts, st);
    h
}

/// the requests worth trying from this state
fn alphabet(t: &Tiny, w: &World) -> Vec<Op> {
    let mut ops = vec![];
    let cfg = match read_cfg(w) {
        Some(c) => c,
        None => return ops,
    };
    let book = Book::read(w);
    let ex = |sender: &str, funds: Vec<(String, u128)>, msg: Value| Op::Exec { sender: sender.into(), funds, msg };
    for (i, (owner, base, price, size)) in t.asks.iter().enumerate() {
        let id = uuid(1 + i as u64);
        if !book.asks.contains_key(&id) {
            ops.push(ex(owner, funds_for(w, base, *size), json!({"create_ask": {"id": id, "base": base, "quote": "q0", "price": price, "size": size.to_string()}})));
        }
    }
    for (i, (owner, price, size)) in t.bids.iter().enumerate() {
        let id = uuid(11 + i as u64);
        if !book.bids.contains_key(&id) {
            let total = crate::exact::parse_dec(price).and_then(|p| p.mul_int(*size)).unwrap_or(0);
            let fee = crate::model::bid_fee_due(&cfg, total).unwrap_or(0);
            let feej = if fee > 0 { json!({"denom": "q0", "amount": fee.to_string()}) } else { Value::Null };
            ops.push(ex(owner, funds_for(w, "q0", total + fee), json!({"create_bid": {"id": id, "base": "base", "fee": feej, "price": price, "quote": "q0", "quote_size": total.to_string(), "size": size.to_string()}})));
        }
    }
    let approver = cfg.approvers.first().cloned().unwrap_or_default();
    for a in book.asks.values() {
        if a.class == AskClass::Pending {
            ops.push(ex(&approver, funds_for(w, &cfg.base, a.size), json!({"approve_ask": {"id": a.id, "base": cfg.base, "size": a.size.to_string()}})));
        }
        ops.push(ex(&a.owner, vec![], json!({"cancel_ask": {"id": a.id}})));
        ops.push(ex("exec1", vec![], json!({"expire_ask": {"id": a.id}})));
        if a.size > cfg.inc {
            ops.push(ex("exec1", vec![], json!({"reject_ask": {"id": a.id, "size": cfg.inc.to_string()}})));
        }
        if a.size > 2 * cfg.inc {
            ops.push(ex("exec1", vec![], json!({"reject_ask": {"id": a.id, "size": (2 * cfg.inc).to_string()}})));
        }
        ops.push(ex("exec1", vec![], json!({"reject_ask": {"id": a.id, "size": a.size.to_string()}})));
        for b in book.bids.values() {
            let brem = b.rem_base().max(0) as u128;
            let m = a.size.min(brem);
            let mut sizes = vec![m, 1, 2];
            if m > 2 {
                sizes.push(m - 1);
            }
            sizes.retain(|x| *x <= m + 0);
            sizes.sort();
            sizes.dedup();
            for s in sizes {
                if s == 0 {
                    continue;
                }
                for p in [a.price.clone(), b.price.clone()] {
                    ops.push(ex("exec1", vec![], json!({"execute_match": {"ask_id": a.id, "bid_id": b.id, "price": p, "size": s.to_string()}})));
                    if a.price == b.price {
                        break;
                    }
                }
            }
        }
    }
    // configuration changed under open orders (two of the markets): fee accounts moved by an executor,
    // fee collection switched off / on again by a migration
    if (t.name == "fees-half" || t.name == "precision-one") && !book.is_empty() {
        if let Some(f) = &cfg.bid_fee {
            let other = if f.account == "feeb" { "carol" } else { "feeb" };
            ops.push(ex("exec1", vec![], json!({"modify_contract": {"bid_fee_rate": f.rate, "bid_fee_account": other}})));
            ops.push(Op::Migrate { msg: json!({"bid_fee_rate": "", "bid_fee_account": ""}) });
        } else if let Some(r) = t.bid_fee {
            ops.push(Op::Migrate { msg: json!({"bid_fee_rate": r, "bid_fee_account": "feeb"}) });
        }
        // the approver list replaced by a migration while an approved ask is open
        if book.asks.values().any(|a| matches!(a.class, AskClass::Ready { .. })) && cfg.approvers.iter().any(|a| a == "appr1") {
            ops.push(Op::Migrate { msg: json!({"approvers": ["dave"]}) });
        }
        if let Some(f) = &cfg.ask_fee {
            if f.account == "feea" {
                ops.push(Op::Migrate { msg: json!({"ask_fee_rate": f.rate, "ask_fee_account": "alice"}) });
            }
        }
    }
    for b in book.bids.values() {
        let brem = b.rem_base().max(0) as u128;
        ops.push(ex(&b.owner, vec![], json!({"cancel_bid": {"id": b.id}})));
        ops.push(ex("exec1", vec![], json!({"expire_bid": {"id": b.id}})));
        if brem > cfg.inc {
            ops.push(ex("exec1", vec![], json!({"reject_bid": {"id": b.id, "size": cfg.inc.to_string()}})));
        }
        if brem > 2 * cfg.inc {
            ops.push(ex("exec1", vec![], json!({"reject_bid": {"id": b.id, "size": (2 * cfg.inc).to_string()}})));
        }
        ops.push(ex("exec1", vec![], json!({"reject_bid": {"id": b.id, "size": brem.to_string()}})));
    }
    ops
}

fn fork(h: &History) -> History {
    History { label: h.label.clone(), w: h.w.clone(), h: h.h.clone(), ops: h.ops.clone(), outcomes: h.outcomes.clone(), found: vec![], stopped: false, probe_rng: h.probe_rng.clone() }
}

fn state_key(h: &History) -> u64 {
    let mut bytes: Vec<u8> = vec![];
    for (k, v) in &h.w.store.data {
        bytes.extend_from_slice(k);
        bytes.extend_from_slice(v);
    }
    for ((a, d), v) in &h.w.ledger {
        if a == CONTRACT {
            bytes.extend_from_slice(d.as_bytes());
            bytes.extend_from_slice(&v.to_le_bytes());
        }
    }
    // which orders have left the book matters to the query and shadow-book checkers
    for ((s, id), _) in &h.h.closed {
        bytes.push(*s as u8);
        bytes.extend_from_slice(id.as_bytes());
    }
    fnv(&bytes)
}

struct Search<'a> {
    t: &'a Tiny,
    opts: &'a Opts,
    seen: BTreeMap<u64, u32>, // state -> deepest remaining depth it was expanded with
    nodes: u64,
    budget: u64,
    bad: Vec<History>,
}

impl<'a> Search<'a> {
    fn dfs(&mut self, h: &History, depth: u32, st: &mut Stats) {
        if depth == 0 || self.nodes >= self.budget || self.bad.len() >= 20 {
            return;
        }
        for op in alphabet(self.t, &h.w) {
            if self.nodes >= self.budget {
                return;
            }
            let mut c = fork(h);
            let out = c.step(op, self.opts, st);
            self.nodes += 1;
            st.g("w6_nodes");
            if !c.found.is_empty() {
                let stop = c.stopped;
                self.bad.push(fork_with_found(&c));
                if stop {
                    continue;
                }
            }
            if !out.is_ok() {
                continue; // refused: state unchanged, nothing new below
            }
            let k = state_key(&c);
            match self.seen.get(&k) {
                Some(d) if *d >= depth - 1 => {
                    st.g("w6_states_revisited");
                    continue;
                }
                Some(_) => {}
                None => st.g("w6_distinct_states"),
            }
            self.seen.insert(k, depth - 1);
            self.dfs(&c, depth - 1, st);
        }
    }
}

fn fork_with_found(h: &History) -> History {
    History { label: h.label.clone(), w: h.w.clone(), h: h.h.clone(), ops: h.ops.clone(), outcomes: h.outcomes.clone(), found: h.found.clone(), stopped: h.stopped, probe_rng: h.probe_rng.clone() }
}

/// explore every tiny market to `depth` with at most `budget` executed requests each
pub fn explore(market: &Tiny, depth: u32, budget: u64, opts: &Opts, st: &mut Stats) -> Vec<History> {
    let root = setup(market, opts, st);
    let mut s = Search { t: market, opts, seen: BTreeMap::new(), nodes: 0, budget, bad: vec![] };
    // iterative deepening: every sequence of length <= d is covered before any of length d+1
    for d in 2..=depth {
        if s.nodes >= s.budget || !s.bad.is_empty() {
            break;
        }
        s.dfs(&root, d, st);
        st.gn(&format!("w6_depth_reached:{}", market.name), 1);
    }
    s.bad
}
