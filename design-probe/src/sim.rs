// chain simulator: storage, querier, ledger, atomic execution
use ats_smart_contract::contract::{execute, instantiate, migrate, query};
use ats_smart_contract::msg::{ExecuteMsg, InstantiateMsg, MigrateMsg, QueryMsg};
use cosmwasm_std::testing::{mock_env, MockApi, MOCK_CONTRACT_ADDR};
use cosmwasm_std::{
    from_slice, to_binary, Addr, BankMsg, Binary, Coin, ContractResult, CosmosMsg, Empty,
    MessageInfo, Order, OwnedDeps, Querier, QuerierResult, QueryRequest, Record, Response,
    Storage, SystemError, SystemResult,
};
use prost::Message;
use provwasm_std::shim::Any;
use provwasm_std::types::cosmos::auth::v1beta1::BaseAccount;
use provwasm_std::types::provenance::attribute::v1::{
    Attribute, QueryAttributesRequest, QueryAttributesResponse,
};
use provwasm_std::types::provenance::marker::v1::{
    MarkerAccount, MsgTransferRequest, QueryMarkerRequest, QueryMarkerResponse,
};
use std::collections::{BTreeMap, HashMap};
use std::marker::PhantomData;
use std::panic::{catch_unwind, AssertUnwindSafe};

pub const CONTRACT: &str = MOCK_CONTRACT_ADDR;

#[derive(Clone, Default, Debug, PartialEq)]
pub struct Store {
    pub data: BTreeMap<Vec<u8>, Vec<u8>>,
}
impl Storage for Store {
    fn get(&self, key: &[u8]) -> Option<Vec<u8>> {
        self.data.get(key).cloned()
    }
    fn range<'a>(
        &'a self,
        start: Option<&[u8]>,
        end: Option<&[u8]>,
        order: Order,
    ) -> Box<dyn Iterator<Item = Record> + 'a> {
        use std::ops::Bound;
        let s = start.map_or(Bound::Unbounded, |x| Bound::Included(x.to_vec()));
        let e = end.map_or(Bound::Unbounded, |x| Bound::Excluded(x.to_vec()));
        if let (Some(a), Some(b)) = (start, end) {
            if a > b {
                return Box::new(std::iter::empty());
            }
        }
        let it = self.data.range((s, e)).map(|(k, v)| (k.clone(), v.clone()));
        match order {
            Order::Ascending => Box::new(it),
            Order::Descending => Box::new(it.rev()),
        }
    }
    fn set(&mut self, key: &[u8], value: &[u8]) {
        self.data.insert(key.to_vec(), value.to_vec());
    }
    fn remove(&mut self, key: &[u8]) {
        self.data.remove(key);
    }
}

#[derive(Clone, Copy, Debug, PartialEq, Eq)]
pub enum MarkerKind {
    NoMarker,
    Coin,
    Restricted,
}

#[derive(Clone, Default)]
pub struct ChainQ {
    pub markers: HashMap<String, MarkerKind>,
    pub attrs: HashMap<String, Vec<String>>,
}

impl Querier for ChainQ {
    fn raw_query(&self, bin_request: &[u8]) -> QuerierResult {
        let request: QueryRequest<Empty> = match from_slice(bin_request) {
            Ok(v) => v,
            Err(e) => {
                return SystemResult::Err(SystemError::InvalidRequest {
                    error: format!("Parsing query request: {}", e),
                    request: bin_request.into(),
                })
            }
        };
        match request {
            QueryRequest::Stargate { path, data } => {
                if path == "/provenance.marker.v1.Query/Marker" {
                    let req = QueryMarkerRequest::decode(data.as_slice()).unwrap();
                    let kind = self.markers.get(&req.id).copied().unwrap_or(MarkerKind::NoMarker);
                    let resp = match kind {
                        MarkerKind::NoMarker => {
                            // chain answers with an error for unknown markers
                            return SystemResult::Ok(ContractResult::Err(format!(
                                "marker {} not found",
                                req.id
                            )));
                        }
                        MarkerKind::Coin | MarkerKind::Restricted => {
                            let m = MarkerAccount {
                                base_account: Some(BaseAccount {
                                    address: format!("marker_{}", req.id),
                                    pub_key: None,
                                    account_number: 10,
                                    sequence: 0,
                                }),
                                manager: "".into(),
                                access_control: vec![],
                                status: 3,
                                denom: req.id.clone(),
                                supply: "1000".into(),
                                marker_type: if kind == MarkerKind::Restricted { 2 } else { 1 },
                                supply_fixed: false,
                                allow_governance_control: true,
                                allow_forced_transfer: false,
                                required_attributes: vec![],
                            };
                            QueryMarkerResponse {
                                marker: Some(Any {
                                    type_url: "/provenance.marker.v1.MarkerAccount".into(),
                                    value: m.encode_to_vec(),
                                }),
                            }
                        }
                    };
                    SystemResult::Ok(ContractResult::Ok(to_binary(&resp).unwrap()))
                } else if path == "/provenance.attribute.v1.Query/Attributes" {
                    let req = QueryAttributesRequest::decode(data.as_slice()).unwrap();
                    let names = self.attrs.get(&req.account).cloned().unwrap_or_default();
                    let resp = QueryAttributesResponse {
                        account: req.account.clone(),
                        attributes: names
                            .into_iter()
                            .map(|n| Attribute {
                                name: n,
                                value: b"v".to_vec(),
                                attribute_type: 1,
                                address: req.account.clone(),
                            })
                            .collect(),
                        pagination: None,
                    };
                    SystemResult::Ok(ContractResult::Ok(to_binary(&resp).unwrap()))
                } else {
                    SystemResult::Err(SystemError::UnsupportedRequest { kind: path })
                }
            }
            _ => SystemResult::Err(SystemError::UnsupportedRequest { kind: "other".into() }),
        }
    }
}

#[derive(Clone, Debug, PartialEq)]
pub enum Xfer {
    Bank { to: String, denom: String, amount: u128, ncoins: usize },
    Marker { admin: String, from: String, to: String, denom: String, amount: String },
    Other(String),
}

#[derive(Clone, Debug)]
pub enum Outcome {
    Ok { xfers: Vec<Xfer>, attrs: Vec<(String, String)> },
    Err(String),
    Panic(String),
}
impl Outcome {
    pub fn is_ok(&self) -> bool {
        matches!(self, Outcome::Ok { .. })
    }
}

pub fn decode_response(r: &Response) -> (Vec<Xfer>, Vec<(String, String)>) {
    let mut xs = vec![];
    for sm in &r.messages {
        match &sm.msg {
            CosmosMsg::Bank(BankMsg::Send { to_address, amount }) => {
                if amount.len() == 1 {
                    xs.push(Xfer::Bank {
                        to: to_address.clone(),
                        denom: amount[0].denom.clone(),
                        amount: amount[0].amount.u128(),
                        ncoins: 1,
                    })
                } else {
                    xs.push(Xfer::Other(format!("bank send with {} coins", amount.len())))
                }
            }
            CosmosMsg::Stargate { type_url, value } => {
                if type_url == "/provenance.marker.v1.MsgTransferRequest" {
                    let m = MsgTransferRequest::decode(value.as_slice()).unwrap();
                    let c = m.amount.clone().unwrap_or_default();
                    xs.push(Xfer::Marker {
                        admin: m.administrator,
                        from: m.from_address,
                        to: m.to_address,
                        denom: c.denom,
                        amount: c.amount,
                    })
                } else {
                    xs.push(Xfer::Other(type_url.clone()))
                }
            }
            other => xs.push(Xfer::Other(format!("{:?}", other))),
        }
    }
    let attrs = r.attributes.iter().map(|a| (a.key.clone(), a.value.clone())).collect();
    (xs, attrs)
}

#[derive(Clone)]
pub struct World {
    pub store: Store,
    pub chain: ChainQ,
    pub ledger: BTreeMap<(String, String), i128>,
}

impl World {
    pub fn new(chain: ChainQ) -> Self {
        World { store: Store::default(), chain, ledger: BTreeMap::new() }
    }
    fn deps(&self) -> OwnedDeps<Store, MockApi, ChainQ, Empty> {
        OwnedDeps {
            storage: self.store.clone(),
            api: MockApi::default(),
            querier: self.chain.clone(),
            custom_query_type: PhantomData,
        }
    }
    pub fn bal(&self, a: &str, d: &str) -> i128 {
        *self.ledger.get(&(a.to_string(), d.to_string())).unwrap_or(&0)
    }
    fn mv(&mut self, from: &str, to: &str, denom: &str, amt: u128) {
        *self.ledger.entry((from.to_string(), denom.to_string())).or_insert(0) -= amt as i128;
        *self.ledger.entry((to.to_string(), denom.to_string())).or_insert(0) += amt as i128;
    }
    pub fn instantiate(&mut self, msg: InstantiateMsg) -> Outcome {
        let mut deps = self.deps();
        let info = MessageInfo { sender: Addr::unchecked("admin"), funds: vec![] };
        let r = catch_unwind(AssertUnwindSafe(|| instantiate(deps.as_mut(), mock_env(), info, msg)));
        match r {
            Ok(Ok(resp)) => {
                self.store = deps.storage;
                let (xfers, attrs) = decode_response(&resp);
                Outcome::Ok { xfers, attrs }
            }
            Ok(Err(e)) => Outcome::Err(format!("{:?}", e)),
            Err(p) => Outcome::Panic(panic_msg(p)),
        }
    }
    /// executes atomically; applies funds + transfers to the ledger on success
    pub fn execute(&mut self, sender: &str, funds: &[Coin], msg: ExecuteMsg) -> Outcome {
        let mut deps = self.deps();
        let info = MessageInfo { sender: Addr::unchecked(sender), funds: funds.to_vec() };
        let r = catch_unwind(AssertUnwindSafe(|| execute(deps.as_mut(), mock_env(), info, msg)));
        match r {
            Ok(Ok(resp)) => {
                self.store = deps.storage;
                let (xfers, attrs) = decode_response(&resp);
                for c in funds {
                    self.mv(sender, CONTRACT, &c.denom, c.amount.u128());
                }
                for x in &xfers {
                    match x {
                        Xfer::Bank { to, denom, amount, .. } => {
                            self.mv(CONTRACT, to, denom, *amount)
                        }
                        Xfer::Marker { from, to, denom, amount, .. } => {
                            self.mv(from, to, denom, amount.parse::<u128>().unwrap_or(0))
                        }
                        Xfer::Other(_) => {}
                    }
                }
                Outcome::Ok { xfers, attrs }
            }
            Ok(Err(e)) => Outcome::Err(format!("{:?}", e)),
            Err(p) => Outcome::Panic(panic_msg(p)),
        }
    }
    pub fn migrate(&mut self, msg: MigrateMsg) -> Outcome {
        let mut deps = self.deps();
        let r = catch_unwind(AssertUnwindSafe(|| migrate(deps.as_mut(), mock_env(), msg)));
        match r {
            Ok(Ok(resp)) => {
                self.store = deps.storage;
                let (xfers, attrs) = decode_response(&resp);
                Outcome::Ok { xfers, attrs }
            }
            Ok(Err(e)) => Outcome::Err(format!("{:?}", e)),
            Err(p) => Outcome::Panic(panic_msg(p)),
        }
    }
    pub fn query(&self, msg: QueryMsg) -> Result<Binary, String> {
        let deps = self.deps();
        let r = catch_unwind(AssertUnwindSafe(|| query(deps.as_ref(), mock_env(), msg)));
        match r {
            Ok(Ok(b)) => Ok(b),
            Ok(Err(e)) => Err(format!("{:?}", e)),
            Err(p) => Err(format!("PANIC {}", panic_msg(p))),
        }
    }
    /// raw scan of a cw-storage-plus Map namespace -> (key, json)
    pub fn scan(&self, ns: &str) -> Vec<(String, serde_json::Value)> {
        let mut prefix = vec![];
        prefix.extend_from_slice(&(ns.len() as u16).to_be_bytes());
        prefix.extend_from_slice(ns.as_bytes());
        self.store
            .data
            .iter()
            .filter(|(k, _)| k.starts_with(&prefix))
            .map(|(k, v)| {
                (
                    String::from_utf8_lossy(&k[prefix.len()..]).to_string(),
                    serde_json::from_slice(v).unwrap(),
                )
            })
            .collect()
    }
    pub fn item(&self, ns: &str) -> Option<serde_json::Value> {
        self.store.data.get(ns.as_bytes()).map(|v| serde_json::from_slice(v).unwrap())
    }
}

fn panic_msg(p: Box<dyn std::any::Any + Send>) -> String {
    if let Some(s) = p.downcast_ref::<&str>() {
        s.to_string()
    } else if let Some(s) = p.downcast_ref::<String>() {
        s.clone()
    } else {
        "?".into()
    }
}
