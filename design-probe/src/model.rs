// probe of the step monitors for C02 / C04 / C17: expected net ledger deltas from the observed pre-state
use crate::fuzz::*;
use crate::sim::*;
use ats_smart_contract::msg::ExecuteMsg;
use serde_json::Value;
use std::collections::BTreeMap;

pub type Delta = BTreeMap<(String, String), i128>;

fn add(d: &mut Delta, a: &str, denom: &str, n: i128) {
    if n != 0 {
        *d.entry((a.to_string(), denom.to_string())).or_insert(0) += n;
    }
}
fn close(mut d: Delta) -> Delta {
    // contract pays everything
    let mut per: BTreeMap<String, i128> = BTreeMap::new();
    for ((_, dn), n) in d.iter() {
        *per.entry(dn.clone()).or_insert(0) += n;
    }
    for (dn, n) in per {
        add(&mut d, CONTRACT, &dn, -n);
    }
    d.retain(|_, v| *v != 0);
    d
}
pub fn observed(before: &World, after: &World) -> Delta {
    let mut d = Delta::new();
    for (k, v) in after.ledger.iter() {
        let b = *before.ledger.get(k).unwrap_or(&0);
        if *v != b {
            d.insert(k.clone(), v - b);
        }
    }
    d
}

fn prorata_set(f: u128, r: u128, q: u128) -> Vec<u128> {
    let (v, tie) = prorata(f, r, q);
    if tie && v > 0 { vec![v, v - 1] } else { vec![v] }
}

pub struct Exp {
    pub deltas: Vec<(Delta, u128, u128)>, // (delta, bid fee paid, ask fee)
}

pub fn expect_match(w: &World, ask_id: &str, bid_id: &str, price: &str, s: u128) -> Exp {
    let info = w.item("contract_info").unwrap();
    let a = w.scan("ask").into_iter().find(|x| x.0 == ask_id).unwrap().1;
    let b = w.scan("bid").into_iter().find(|x| x.0 == bid_id).unwrap().1;
    let p = parse_dec(price).unwrap();
    let bp = parse_dec(b["price"].as_str().unwrap()).unwrap();
    let g = p.mul_int(s).unwrap();
    let go = bp.mul_int(s).unwrap();
    let qd = b["quote"]["denom"].as_str().unwrap();
    let base = info["base_denom"].as_str().unwrap();
    let bidder = b["owner"].as_str().unwrap();
    let askfee = info["ask_fee_info"].as_object().map_or(0, |o| fee_of(&parse_dec(o["rate"].as_str().unwrap()).unwrap(), g));
    let q = u(&b["quote"]["amount"]);
    let rq = q - u(&b["accumulated_quote"]);
    let mut alts: Vec<(u128, u128)> = vec![]; // (paid, refund)
    match b["fee"].as_object() {
        None => alts.push((0, 0)),
        Some(f) => {
            let fa = u(&f["amount"]);
            let h = fa - u(&b["accumulated_fee"]);
            for v1 in prorata_set(fa, rq - g, q) {
                if v1 > h { continue; }
                let paid = h - v1;
                for v2 in prorata_set(fa, rq - go, q) {
                    if v2 > v1 { continue; }
                    alts.push((paid, v1 - v2));
                }
            }
        }
    }
    let mut out = vec![];
    for (paid, refund) in alts {
        let mut d = Delta::new();
        add(&mut d, bidder, base, s as i128);
        add(&mut d, bidder, qd, (go - g + refund) as i128);
        let seller = match a["class"].get("Convertible") {
            None => a["owner"].as_str().unwrap().to_string(),
            Some(c) => {
                let ap = c["status"]["Ready"]["approver"].as_str().unwrap().to_string();
                add(&mut d, &ap, a["base"].as_str().unwrap(), s as i128);
                ap
            }
        };
        add(&mut d, &seller, qd, (g - askfee) as i128);
        if askfee > 0 {
            add(&mut d, info["ask_fee_info"]["account"].as_str().unwrap(), qd, askfee as i128);
        }
        if paid > 0 {
            add(&mut d, info["bid_fee_info"]["account"].as_str().unwrap(), qd, paid as i128);
        }
        out.push((close(d), paid, askfee));
    }
    Exp { deltas: out }
}

pub fn expect_reverse(w: &World, msg: &ExecuteMsg) -> Option<Vec<(Delta, u128)>> {
    // returns alternatives (delta, reversed size)
    let (side, id, part) = match msg {
        ExecuteMsg::CancelAsk { id } | ExecuteMsg::ExpireAsk { id } => ("ask", id, None),
        ExecuteMsg::RejectAsk { id, size } => ("ask", id, size.map(|x| x.u128())),
        ExecuteMsg::CancelBid { id } | ExecuteMsg::ExpireBid { id } => ("bid", id, None),
        ExecuteMsg::RejectBid { id, size } => ("bid", id, size.map(|x| x.u128())),
        _ => return None,
    };
    let o = w.scan(side).into_iter().find(|x| &x.0 == id)?.1;
    if side == "ask" {
        let c = part.unwrap_or(u(&o["size"]));
        let mut d = Delta::new();
        add(&mut d, o["owner"].as_str().unwrap(), o["base"].as_str().unwrap(), c as i128);
        if let Some(r) = o["class"].get("Convertible").and_then(|c| c["status"].get("Ready")) {
            add(&mut d, r["approver"].as_str().unwrap(), r["converted_base"]["denom"].as_str().unwrap(), c as i128);
        }
        Some(vec![(close(d), c)])
    } else {
        let rb = u(&o["base"]["amount"]) - u(&o["accumulated_base"]);
        let c = part.unwrap_or(rb);
        let cq = parse_dec(o["price"].as_str().unwrap()).unwrap().mul_int(c).unwrap();
        let q = u(&o["quote"]["amount"]);
        let rq = q - u(&o["accumulated_quote"]);
        let qd = o["quote"]["denom"].as_str().unwrap();
        let mut out = vec![];
        let rets: Vec<u128> = match o["fee"].as_object() {
            None => vec![0],
            Some(f) => {
                let fa = u(&f["amount"]);
                let h = fa - u(&o["accumulated_fee"]);
                prorata_set(fa, rq - cq, q).into_iter().filter(|v| *v <= h).map(|v| h - v).collect()
            }
        };
        for ret in rets {
            let mut d = Delta::new();
            add(&mut d, o["owner"].as_str().unwrap(), qd, (cq + ret) as i128);
            out.push((close(d), c));
        }
        Some(out)
    }
}

/// attribute-driven shadow book: id -> (remaining size, approval state)
#[derive(Default, Clone, Debug, PartialEq)]
pub struct Shadow {
    pub asks: BTreeMap<String, (u128, String)>,
    pub bids: BTreeMap<String, u128>,
}
impl Shadow {
    pub fn apply(&mut self, attrs: &[(String, String)]) -> Result<(), String> {
        let get = |k: &str| attrs.iter().find(|a| a.0 == k).map(|a| a.1.clone());
        let action = get("action").ok_or("no action attr")?;
        let num = |k: &str| -> Result<u128, String> { get(k).ok_or(format!("no {}", k))?.parse::<u128>().map_err(|e| e.to_string()) };
        let cls = |c: &str| -> String {
            if c.contains("Ready") { "ready".into() } else if c.contains("Pending") { "pending".into() } else { "basic".into() }
        };
        match action.as_str() {
            "create_ask" => { self.asks.insert(get("id").ok_or("id")?, (num("size")?, cls(&get("class").ok_or("class")?))); }
            "create_bid" => { self.bids.insert(get("id").ok_or("id")?, num("size")?); }
            "approve_ask" => { let id = get("id").ok_or("id")?; let e = self.asks.get_mut(&id).ok_or("approve unknown")?; e.1 = cls(&get("class").ok_or("class")?); e.0 = num("size")?; }
            "cancel_ask" => { self.asks.remove(&get("id").ok_or("id")?).ok_or("cancel unknown")?; }
            "expire_ask" | "reject_ask" => {
                let id = get("id").ok_or("id")?; let c = num("reverse_size")?; let open = get("order_open").ok_or("order_open")? == "true";
                let e = self.asks.get_mut(&id).ok_or("rev unknown")?; e.0 -= c;
                if !open { self.asks.remove(&id); }
            }
            "cancel_bid" | "expire_bid" | "reject_bid" => {
                let id = get("id").ok_or("id")?; let c = num("reverse_size")?; let open = get("order_open").ok_or("order_open")? == "true";
                let e = self.bids.get_mut(&id).ok_or("rev unknown")?; *e -= c;
                if !open { self.bids.remove(&id); }
            }
            "execute" => {
                let (aid, bid) = (get("ask_id").ok_or("ask_id")?, get("bid_id").ok_or("bid_id")?); let s = num("size")?;
                let e = self.asks.get_mut(&aid).ok_or("exec unknown ask")?; e.0 -= s; if e.0 == 0 { self.asks.remove(&aid); }
                let e = self.bids.get_mut(&bid).ok_or("exec unknown bid")?; *e -= s; if *e == 0 { self.bids.remove(&bid); }
            }
            "modify_contract" => {}
            x => return Err(format!("unknown action {}", x)),
        }
        Ok(())
    }
    pub fn of_world(w: &World) -> Shadow {
        let mut s = Shadow::default();
        for (id, a) in w.scan("ask") {
            let c = match a["class"].get("Convertible") { None => "basic", Some(c) => if c["status"].is_string() { "pending" } else { "ready" } };
            s.asks.insert(id, (u(&a["size"]), c.into()));
        }
        for (id, b) in w.scan("bid") {
            s.bids.insert(id, u(&b["base"]["amount"]) - u(&b["accumulated_base"]));
        }
        s
    }
}

pub fn check_step(before: &World, after: &World, st: &Step, attrs: &[(String, String)], out: &mut Vec<Viol>, stats: &mut BTreeMap<String, u64>) {
    let obs = observed(before, after);
    let get = |k: &str| attrs.iter().find(|a| a.0 == k).map(|a| a.1.clone());
    match &st.msg {
        ExecuteMsg::ExecuteMatch { ask_id, bid_id, price, size } => {
            let e = expect_match(before, ask_id, bid_id, price, size.u128());
            *stats.entry(format!("  match-alts:{}", e.deltas.len())).or_insert(0) += 1;
            match e.deltas.iter().find(|x| x.0 == obs) {
                None => out.push(Viol { prop: "C02", what: format!("match delta {:?} not in expected {:?}", obs, e.deltas.iter().map(|x| &x.0).collect::<Vec<_>>()) }),
                Some((_, paid, askfee)) => {
                    // C17 attributes (when unambiguous)
                    if get("size") != Some(size.to_string()) { out.push(Viol { prop: "C17", what: "size attr".into() }); }
                    if get("ask_fee") != Some(askfee.to_string()) { out.push(Viol { prop: "C17", what: format!("ask_fee attr {:?} vs {}", get("ask_fee"), askfee) }); }
                    let paids: Vec<String> = e.deltas.iter().filter(|x| x.0 == obs).map(|x| x.1.to_string()).collect();
                    if !paids.contains(&get("bid_fee").unwrap_or_default()) { out.push(Viol { prop: "C17", what: format!("bid_fee attr {:?} vs {} {:?}", get("bid_fee"), paid, paids) }); }
                    let pa = get("price").and_then(|p| parse_dec(&p));
                    if pa.map(|p| p.cmp(&parse_dec(price).unwrap())) != Some(std::cmp::Ordering::Equal) { out.push(Viol { prop: "C17", what: "price attr".into() }); }
                }
            }
        }
        m => {
            if let Some(alts) = expect_reverse(before, m) {
                *stats.entry(format!("  rev-alts:{}", alts.len())).or_insert(0) += 1;
                if !alts.iter().any(|x| x.0 == obs) {
                    out.push(Viol { prop: "C04", what: format!("reverse delta {:?} not in expected {:?}", obs, alts.iter().map(|x| &x.0).collect::<Vec<_>>()) });
                }
                if !matches!(m, ExecuteMsg::CancelAsk { .. }) {
                    if get("reverse_size") != Some(alts[0].1.to_string()) { out.push(Viol { prop: "C17", what: "reverse_size attr".into() }); }
                }
            }
        }
    }
}
