#[path = "../src/sim.rs"]
mod sim;
use ats_smart_contract::msg::{ExecuteMsg, InstantiateMsg};
use cosmwasm_std::{coins, Uint128};
use serde_json::{json, Value};
use sim::*;

fn base_world(fee: bool) -> World {
    let mut c = ChainQ::default();
    c.attrs.insert("seller".into(), vec!["kyc".into()]);
    c.attrs.insert("buyer".into(), vec!["kyc".into()]);
    let mut w = World::new(c);
    let o = w.instantiate(InstantiateMsg { name: "ats".into(), base_denom: "base".into(), convertible_base_denoms: vec!["conv".into()], supported_quote_denoms: vec!["quote".into()], approvers: vec!["appr1".into(), "appr2".into()], executors: vec!["exec".into()],
        ask_fee_rate: if fee { Some("0.01".into()) } else { None }, ask_fee_account: if fee { Some("askfee".into()) } else { None }, bid_fee_rate: if fee { Some("0.02".into()) } else { None }, bid_fee_account: if fee { Some("bidfee".into()) } else { None },
        ask_required_attributes: vec!["kyc".into()], bid_required_attributes: vec![], price_precision: Uint128::new(0), size_increment: Uint128::new(1) });
    assert!(o.is_ok());
    w
}
fn main() {
    std::panic::set_hook(Box::new(|_| {}));
    let opts_list: Vec<Option<Vec<String>>> = vec![None, Some(vec![]), Some(vec!["appr1".into(), "appr2".into(), "appr3".into()]), Some(vec!["appr2".into(), "appr1".into()]), Some(vec!["appr1".into()]), Some(vec!["BAD".into()])];
    let exec_list: Vec<Option<Vec<String>>> = vec![None, Some(vec![]), Some(vec!["exec".into(), "exec2".into()]), Some(vec!["other".into()])];
    let fee_list: Vec<(Option<String>, Option<String>)> = { let s = |x: &str| Some(x.to_string()); vec![(None, None), (s(""), s("")), (s("0.01"), s("newacct")), (s("0.010"), s("newacct")), (s("0.02"), s("newacct")), (s("0.020"), s("bidfee")), (s("0.03"), s("newacct")), (s("0.01"), None), (None, s("newacct")), (s("abc"), s("newacct")), (s("0.01"), s("BAD"))] };
    let attr_list: Vec<Option<Vec<String>>> = vec![None, Some(vec![]), Some(vec!["kyc".into()]), Some(vec!["other".into()])];
    let mut n = 0u64; let mut acc = 0u64; let mut bad = 0u64; let mut traps = 0u64;
    for fee in [false, true] { for book in 0..4u32 {
        let mut w = base_world(fee);
        if book & 1 != 0 { assert!(w.execute("seller", &coins(5, "base"), ExecuteMsg::CreateAsk { id: "ab5f5a62-f6fc-46d1-aa84-51ccc51ec367".into(), base: "base".into(), quote: "quote".into(), price: "2".into(), size: Uint128::new(5) }).is_ok()); }
        if book & 2 != 0 { let f = if fee { Some(cosmwasm_std::coin(0, "quote")) } else { None }; let o = w.execute("buyer", &coins(10, "quote"), ExecuteMsg::CreateBid { id: "c13f8888-ca43-4a64-ab1b-1ca8d60aa49b".into(), base: "base".into(), fee: f, price: "2".into(), quote: "quote".into(), quote_size: Uint128::new(10), size: Uint128::new(5) }); assert!(o.is_ok(), "{:?}", o); }
        for ap in &opts_list { for ex in &exec_list { for af in &fee_list { for bf in &fee_list { for aa in &attr_list { for ba in &attr_list { for sender in ["exec", "appr1"] {
            let before = w.item("contract_info").unwrap();
            let mut w2 = w.clone();
            let o = w2.execute(sender, &[], ExecuteMsg::ModifyContract { approvers: ap.clone(), executors: ex.clone(), ask_fee_rate: af.0.clone(), ask_fee_account: af.1.clone(), bid_fee_rate: bf.0.clone(), bid_fee_account: bf.1.clone(), ask_required_attributes: aa.clone(), bid_required_attributes: ba.clone() });
            n += 1;
            if let Outcome::Panic(_) = o { traps += 1; }
            if !o.is_ok() { continue; }
            acc += 1;
            let after = w2.item("contract_info").unwrap();
            let mut why: Vec<String> = vec![];
            if sender != "exec" { why.push("non-executor accepted".into()); }
            let has_ask = book & 1 != 0; let has_bid = book & 2 != 0;
            let num = |v: &Value| -> Option<f64> { v.as_object().map(|o| o["rate"].as_str().unwrap().parse::<f64>().unwrap()) };
            if has_ask { if num(&before["ask_fee_info"]) != num(&after["ask_fee_info"]) { why.push("ask rate changed with asks open".into()); } if before["ask_required_attributes"] != after["ask_required_attributes"] { why.push("ask attrs changed".into()); } }
            if has_bid { if num(&before["bid_fee_info"]) != num(&after["bid_fee_info"]) { why.push("bid rate changed with bids open".into()); } if before["bid_required_attributes"] != after["bid_required_attributes"] { why.push("bid attrs changed".into()); } }
            if has_ask || has_bid { for a in before["approvers"].as_array().unwrap() { if !after["approvers"].as_array().unwrap().contains(a) { why.push("approver dropped".into()); } } }
            if after["approvers"].as_array().unwrap().is_empty() && ap.is_some() { why.push("approvers emptied".into()); }
            if after["executors"].as_array().unwrap().is_empty() { why.push("executors emptied".into()); }
            // installed exactly
            let mut exp = before.clone();
            if let Some(l) = ap { exp["approvers"] = json!(l); }
            if let Some(l) = ex { exp["executors"] = json!(l); }
            let inst_fee = |e: &mut Value, k: &str, f: &(Option<String>, Option<String>)| { if let (Some(r), Some(a)) = (&f.0, &f.1) { e[k] = if r.is_empty() && a.is_empty() { Value::Null } else { json!({"account": a, "rate": r}) }; } else if f.0.is_some() != f.1.is_some() { e[k] = json!("HALF-SUPPLIED-ACCEPTED"); } };
            inst_fee(&mut exp, "ask_fee_info", af); inst_fee(&mut exp, "bid_fee_info", bf);
            if let Some(l) = aa { exp["ask_required_attributes"] = json!(l); }
            if let Some(l) = ba { exp["bid_required_attributes"] = json!(l); }
            if exp != after { why.push(format!("config not as requested: {} vs {}", after, exp)); }
            if !why.is_empty() { bad += 1; if bad < 10 { println!("VIOL fee={} book={} {:?} {:?} {:?} {:?} {:?} {:?} -> {:?}", fee, book, ap, ex, af, bf, aa, ba, why); } }
        }}}}}}}
    }}
    println!("modify cases {} accepted {} traps {} violations {}", n, acc, traps, bad);
}
