mod sim;
mod fuzz;
mod model;
use ats_smart_contract::msg::{ExecuteMsg, InstantiateMsg};
use cosmwasm_std::{coin, coins, Uint128};
use sim::*;

fn inst(prec: u128, inc: u128, ask_fee: Option<&str>, bid_fee: Option<&str>) -> InstantiateMsg {
    InstantiateMsg {
        name: "ats".into(),
        base_denom: "base".into(),
        convertible_base_denoms: vec!["conv".into()],
        supported_quote_denoms: vec!["quote".into()],
        approvers: vec!["approver".into()],
        executors: vec!["exec".into()],
        ask_fee_rate: ask_fee.map(|s| s.to_string()),
        ask_fee_account: ask_fee.map(|_| "askfee".to_string()),
        bid_fee_rate: bid_fee.map(|s| s.to_string()),
        bid_fee_account: bid_fee.map(|_| "bidfee".to_string()),
        ask_required_attributes: vec![],
        bid_required_attributes: vec![],
        price_precision: Uint128::new(prec),
        size_increment: Uint128::new(inc),
    }
}
const A1: &str = "ab5f5a62-f6fc-46d1-aa84-51ccc51ec367";
const B1: &str = "c13f8888-ca43-4a64-ab1b-1ca8d60aa49b";

fn show(w: &World, tag: &str, o: &Outcome) {
    println!("  {} -> {:?}", tag, o);
    println!("     asks={:?}", w.scan("ask").iter().map(|x| x.1.to_string()).collect::<Vec<_>>());
    println!("     bids={:?}", w.scan("bid").iter().map(|x| x.1.to_string()).collect::<Vec<_>>());
    println!("     contract ledger: {:?}", w.ledger.iter().filter(|(k, _)| k.0 == CONTRACT).collect::<Vec<_>>());
}

fn main() {
    if std::env::var("DEBUG_PANIC").is_err() { std::panic::set_hook(Box::new(|_| {})); }
    let args: Vec<String> = std::env::args().collect();
    if args.len() > 1 && args[1] == "mig" {
        fuzz::run_mig(args[2].parse().unwrap(), args[3].parse().unwrap(), args[4].parse().unwrap());
        return;
    }
    if args.len() > 1 && args[1] == "fuzz" {
        fuzz::run(args[2].parse().unwrap(), args[3].parse().unwrap(), args[4].parse().unwrap());
        return;
    }
    // defect 1: partial reject then cancel of approved convertible ask
    println!("== D1 stale converted_base");
    let mut w = World::new(ChainQ::default());
    println!("{:?}", w.instantiate(inst(0, 1, None, None)));
    let o = w.execute("seller", &coins(10, "conv"), ExecuteMsg::CreateAsk { id: A1.into(), base: "conv".into(), quote: "quote".into(), price: "2".into(), size: Uint128::new(10) });
    show(&w, "create_ask", &o);
    let o = w.execute("approver", &coins(10, "base"), ExecuteMsg::ApproveAsk { id: A1.into(), base: "base".into(), size: Uint128::new(10) });
    show(&w, "approve", &o);
    let o = w.execute("exec", &[], ExecuteMsg::RejectAsk { id: A1.into(), size: Some(Uint128::new(4)) });
    show(&w, "reject 4", &o);
    let o = w.execute("seller", &[], ExecuteMsg::CancelAsk { id: A1.into() });
    show(&w, "cancel", &o);

    println!("== D2 fee stranded on final improved fill whose fee rounds to 0");
    let mut w = World::new(ChainQ::default());
    w.instantiate(inst(0, 1, None, Some("0.01")));
    // bid 10 @ 10 = 100 quote, fee 1
    let o = w.execute("buyer", &coins(101, "quote"), ExecuteMsg::CreateBid { id: B1.into(), base: "base".into(), fee: Some(coin(1, "quote")), price: "10".into(), quote: "quote".into(), quote_size: Uint128::new(100), size: Uint128::new(10) });
    show(&w, "create_bid", &o);
    let o = w.execute("seller", &coins(10, "base"), ExecuteMsg::CreateAsk { id: A1.into(), base: "base".into(), quote: "quote".into(), price: "4".into(), size: Uint128::new(10) });
    show(&w, "create_ask", &o);
    let o = w.execute("exec", &[], ExecuteMsg::ExecuteMatch { ask_id: A1.into(), bid_id: B1.into(), price: "4".into(), size: Uint128::new(10) });
    show(&w, "match 10@4", &o);

    println!("== D3 non-lot fill locks bid");
    let mut w = World::new(ChainQ::default());
    w.instantiate(inst(0, 10, None, None));
    let o = w.execute("buyer", &coins(40, "quote"), ExecuteMsg::CreateBid { id: B1.into(), base: "base".into(), fee: None, price: "2".into(), quote: "quote".into(), quote_size: Uint128::new(40), size: Uint128::new(20) });
    show(&w, "create_bid", &o);
    let o = w.execute("seller", &coins(20, "base"), ExecuteMsg::CreateAsk { id: A1.into(), base: "base".into(), quote: "quote".into(), price: "2".into(), size: Uint128::new(20) });
    show(&w, "create_ask", &o);
    let o = w.execute("exec", &[], ExecuteMsg::ExecuteMatch { ask_id: A1.into(), bid_id: B1.into(), price: "2".into(), size: Uint128::new(15) });
    show(&w, "match 15", &o);
    let o = w.execute("buyer", &[], ExecuteMsg::CancelBid { id: B1.into() });
    show(&w, "cancel bid", &o);
    let o = w.execute("exec", &[], ExecuteMsg::ExpireBid { id: B1.into() });
    show(&w, "expire bid", &o);
    let o = w.execute("exec", &[], ExecuteMsg::ExpireAsk { id: A1.into() });
    show(&w, "expire ask", &o);
    let o = w.execute("seller", &[], ExecuteMsg::CancelAsk { id: A1.into() });
    show(&w, "cancel ask", &o);

    println!("== D4 mixed marker types on convertible match");
    let mut c = ChainQ::default();
    c.markers.insert("base".into(), MarkerKind::Restricted);
    c.markers.insert("conv".into(), MarkerKind::Coin);
    let mut w = World::new(c);
    w.instantiate(inst(0, 1, None, None));
    let o = w.execute("seller", &coins(10, "conv"), ExecuteMsg::CreateAsk { id: A1.into(), base: "conv".into(), quote: "quote".into(), price: "2".into(), size: Uint128::new(10) });
    show(&w, "create_ask", &o);
    let o = w.execute("approver", &[], ExecuteMsg::ApproveAsk { id: A1.into(), base: "base".into(), size: Uint128::new(10) });
    show(&w, "approve", &o);
    let o = w.execute("buyer", &coins(20, "quote"), ExecuteMsg::CreateBid { id: B1.into(), base: "base".into(), fee: None, price: "2".into(), quote: "quote".into(), quote_size: Uint128::new(20), size: Uint128::new(10) });
    show(&w, "create_bid", &o);
    let o = w.execute("exec", &[], ExecuteMsg::ExecuteMatch { ask_id: A1.into(), bid_id: B1.into(), price: "2".into(), size: Uint128::new(10) });
    show(&w, "match", &o);
}
