#[path = "../src/sim.rs"]
mod sim;
use ats_smart_contract::msg::{ExecuteMsg, InstantiateMsg};
use cosmwasm_std::{coins, Uint128};
use sim::*;

fn valid_addr(s: &str) -> bool { s.len() >= 3 && s.len() <= 90 && s.to_lowercase() == s }
fn parse_ok(s: &str) -> bool {
    // firm grammar: [-]digits[.digits]
    let t = s.strip_prefix('-').unwrap_or(s);
    let (i, f) = t.split_once('.').unwrap_or((t, "0"));
    !i.is_empty() && !f.is_empty() && i.bytes().all(|b| b.is_ascii_digit()) && f.bytes().all(|b| b.is_ascii_digit()) && (i.len() + f.len()) <= 28
}
fn fee_forms() -> Vec<(Option<String>, Option<String>, Option<bool>)> {
    // (rate, account, expected: Some(true)=ok fee, Some(false)=refuse, None= ok no fee)
    let s = |x: &str| Some(x.to_string());
    vec![
        (None, None, None), (s(""), s(""), None),
        (s("0.01"), s("feeacct"), Some(true)), (s("0"), s("feeacct"), Some(true)), (s("1"), s("feeacct"), Some(true)), (s("0.010"), s("feeacct"), Some(true)),
        (s("0.01"), None, Some(false)), (None, s("feeacct"), Some(false)),
        (s("abc"), s("feeacct"), Some(false)), (s(""), s("feeacct"), Some(false)), (s("0.01"), s(""), Some(false)),
        (s("0.01"), s("FeeAcct"), Some(false)), (s("0.01"), s("ab"), Some(false)), (s("1e-2"), s("feeacct"), Some(false)), (s("0.0.1"), s("feeacct"), Some(false)),
    ]
}
fn main() {
    std::panic::set_hook(Box::new(|_| {}));
    let mut n = 0u64; let mut acc = 0u64; let mut bad = 0u64;
    let incs = |p: u32| -> Vec<u128> {
        let t = 10u128.pow(p.min(20));
        let mut v = vec![0, 1, t, t + 1, 2 * t, 3 * t, 10 * t, t * 7 / 10 * 10 / 7];
        if t > 1 { v.push(t - 1); v.push(t / 10); v.push(t / 2); v.push(t * 5 / 10 * 3); }
        v
    };
    for prec in 0..=20u32 {
        for inc in incs(prec) {
            for (ar, aa, ae) in fee_forms() {
                for (br, ba, be) in [fee_forms()[0].clone(), fee_forms()[2].clone(), fee_forms()[8].clone()] {
                    for defect in 0..8u32 {
                        let msg = InstantiateMsg {
                            name: if defect == 1 { "".into() } else { "ats".into() },
                            base_denom: if defect == 2 { "".into() } else { "base".into() },
                            convertible_base_denoms: vec![],
                            supported_quote_denoms: if defect == 3 { vec![] } else { vec!["quote".into()] },
                            approvers: if defect == 5 { vec!["BAD".into()] } else if defect == 7 { vec![] } else { vec!["approver".into()] },
                            executors: if defect == 4 { vec![] } else if defect == 6 { vec!["x".into()] } else { vec!["exec".into()] },
                            ask_fee_rate: ar.clone(), ask_fee_account: aa.clone(), bid_fee_rate: br.clone(), bid_fee_account: ba.clone(),
                            ask_required_attributes: vec![], bid_required_attributes: vec!["kyc".into()],
                            price_precision: Uint128::new(prec as u128), size_increment: Uint128::new(inc),
                        };
                        let coherent = !(1..=6).contains(&defect) && prec <= 18 && inc >= 1 && inc % 10u128.pow(prec.min(18)) == 0 && ae != Some(false) && be != Some(false);
                        let mut w = World::new(ChainQ::default());
                        let o = w.instantiate(msg.clone());
                        n += 1;
                        if o.is_ok() { acc += 1; }
                        if o.is_ok() != coherent { bad += 1; println!("MISMATCH prec={} inc={} ask={:?}/{:?} bid={:?}/{:?} defect={} -> {:?} expected {}", prec, inc, ar, aa, br, ba, defect, o.is_ok(), coherent); }
                        if o.is_ok() {
                            let info = w.item("contract_info").unwrap();
                            let exp_fee = |e: Option<bool>, r: &Option<String>, a: &Option<String>| if e == Some(true) { serde_json::json!({"account": a, "rate": r}) } else { serde_json::Value::Null };
                            if info["ask_fee_info"] != exp_fee(ae, &ar, &aa) || info["bid_fee_info"] != exp_fee(be, &br, &ba) { bad += 1; println!("stored fee mismatch {}", info); }
                            if info["price_precision"] != prec.to_string() || info["size_increment"] != inc.to_string() || info["name"] != "ats" { bad += 1; println!("stored mismatch {}", info); }
                            let v = w.item("version_info").unwrap();
                            if v["version"] != "1.0.0" || v["definition"] != "ats_smart_contract" { bad += 1; println!("version {}", v); }
                        }
                    }
                }
            }
        }
    }
    println!("instantiate cases {} accepted {} mismatches {}", n, acc, bad);
    let _ = (parse_ok("1"), valid_addr("abc"), coins(1, "x"), ExecuteMsg::CancelAsk { id: "".into() });
}
