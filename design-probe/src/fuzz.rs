// prototype random driver + core oracles
use crate::sim::*;
use ats_smart_contract::msg::{ExecuteMsg, InstantiateMsg};
use cosmwasm_std::{coin, Coin, Uint128, Uint256 as W};
use serde_json::Value;
use std::collections::BTreeMap;

pub struct Rng(pub u64);
impl Rng {
    pub fn next(&mut self) -> u64 {
        self.0 = self.0.wrapping_add(0x9E3779B97F4A7C15);
        let mut z = self.0;
        z = (z ^ (z >> 30)).wrapping_mul(0xBF58476D1CE4E5B9);
        z = (z ^ (z >> 27)).wrapping_mul(0x94D049BB133111EB);
        z ^ (z >> 31)
    }
    pub fn below(&mut self, n: u64) -> u64 {
        self.next() % n
    }
    pub fn pick<'a, T>(&mut self, v: &'a [T]) -> &'a T {
        &v[self.below(v.len() as u64) as usize]
    }
    pub fn chance(&mut self, pct: u64) -> bool {
        self.below(100) < pct
    }
}

// exact decimal: mant / 10^scale
#[derive(Clone, Copy, Debug, PartialEq)]
pub struct Dec {
    pub mant: u128,
    pub scale: u32,
}
pub fn parse_dec(s: &str) -> Option<Dec> {
    let (i, f) = match s.split_once('.') {
        Some((i, f)) => (i, f),
        None => (s, ""),
    };
    if i.is_empty() || !i.bytes().all(|b| b.is_ascii_digit()) || !f.bytes().all(|b| b.is_ascii_digit()) {
        return None;
    }
    let mant: u128 = format!("{}{}", i, f).parse().ok()?;
    Some(Dec { mant, scale: f.len() as u32 })
}
impl Dec {
    // self * n if integer
    pub fn mul_int(&self, n: u128) -> Option<u128> {
        let p = W::from(self.mant) * W::from(n);
        let d = W::from(10u128.pow(self.scale));
        if (p % d).is_zero() {
            Some(Uint128::try_from(p / d).ok()?.u128())
        } else {
            None
        }
    }
    pub fn cmp(&self, o: &Dec) -> std::cmp::Ordering {
        let s = self.scale.max(o.scale);
        (W::from(self.mant) * W::from(10u128.pow(s - self.scale))).cmp(&(W::from(o.mant) * W::from(10u128.pow(s - o.scale))))
    }
}
// round half away from zero of rate * amount
pub fn fee_of(rate: &Dec, amount: u128) -> u128 {
    let d = W::from(10u128.pow(rate.scale));
    let p = W::from(rate.mant) * W::from(amount);
    let two = W::from(2u128);
    Uint128::try_from((two * p + d) / (two * d)).unwrap().u128()
}
// round-half-up of f*r/q ; also whether tie
pub fn prorata(f: u128, r: u128, q: u128) -> (u128, bool) {
    let two = W::from(2u128);
    let n = W::from(f) * W::from(r);
    let q = W::from(q);
    let v = Uint128::try_from((two * n + q) / (two * q)).unwrap().u128();
    let tie = (two * n) % (two * q) == q;
    (v, tie)
}

pub fn u(v: &Value) -> u128 {
    v.as_str().unwrap().parse().unwrap()
}

pub struct Cfg {
    pub prec: u32,
    pub inc: u128,
    pub convs: Vec<String>,
    pub quotes: Vec<String>,
    pub approvers: Vec<String>,
    pub executors: Vec<String>,
    pub ask_fee: Option<(String, String)>,
    pub bid_fee: Option<(String, String)>,
}

const POOL: &[&str] = &["alice", "bob", "carol", "dave", "exec1", "exec2", "appr1", "appr2", "feea", "feeb"];
const RATES: &[&str] = &["0", "0.001", "0.01", "0.015", "0.05", "0.1", "0.25", "0.5", "0.33", "1"];

pub fn uuid(n: u64) -> String {
    format!("{:08x}-0000-4000-8000-{:012x}", n, n)
}

pub fn gen_cfg(r: &mut Rng) -> (Cfg, ChainQ) {
    let big = std::env::var("BIG").is_ok();
    let prec = if big { *r.pick(&[9u32, 12, 18, 18]) } else { *r.pick(&[0u32, 0, 0, 1, 2, 3, 6]) };
    let k = if big { *r.pick(&[1u128, 3, 1000, 1000000]) } else { *r.pick(&[1u128, 1, 1, 2, 5, 10]) };
    let inc = k * 10u128.pow(prec);
    let convs: Vec<String> = (0..r.below(3)).map(|i| format!("conv{}", i)).collect();
    let quotes: Vec<String> = (0..1 + r.below(2)).map(|i| format!("q{}", i)).collect();
    let mut chain = ChainQ::default();
    for d in convs.iter().chain(quotes.iter()).chain(std::iter::once(&"base".to_string())) {
        chain.markers.insert(d.clone(), *r.pick(&[MarkerKind::NoMarker, MarkerKind::Coin, MarkerKind::Restricted]));
    }
    for a in POOL { chain.attrs.insert(a.to_string(), vec!["kyc".into(), "acc".into(), "x".into()]); }
    let approvers: Vec<String> = (0..1 + r.below(2)).map(|_| r.pick(POOL).to_string()).collect();
    let executors: Vec<String> = (0..1 + r.below(2)).map(|_| r.pick(POOL).to_string()).collect();
    let ask_fee = if r.chance(60) { Some((r.pick(POOL).to_string(), r.pick(RATES).to_string())) } else { None };
    let bid_fee = if r.chance(60) { Some((r.pick(POOL).to_string(), r.pick(RATES).to_string())) } else { None };
    (Cfg { prec, inc, convs, quotes, approvers, executors, ask_fee, bid_fee }, chain)
}

pub fn inst_msg(c: &Cfg) -> InstantiateMsg {
    InstantiateMsg {
        name: "ats".into(),
        base_denom: "base".into(),
        convertible_base_denoms: c.convs.clone(),
        supported_quote_denoms: c.quotes.clone(),
        approvers: c.approvers.clone(),
        executors: c.executors.clone(),
        ask_fee_rate: c.ask_fee.as_ref().map(|x| x.1.clone()),
        ask_fee_account: c.ask_fee.as_ref().map(|x| x.0.clone()),
        bid_fee_rate: c.bid_fee.as_ref().map(|x| x.1.clone()),
        bid_fee_account: c.bid_fee.as_ref().map(|x| x.0.clone()),
        ask_required_attributes: if c.prec % 2 == 1 { vec!["kyc".into()] } else { vec![] },
        bid_required_attributes: if c.inc % 2 == 0 { vec!["kyc".into(), "acc".into()] } else { vec![] },
        price_precision: Uint128::new(c.prec as u128),
        size_increment: Uint128::new(c.inc),
    }
}

fn gen_price(r: &mut Rng, prec: u32) -> String {
    // small grid of prices with up to prec decimals
    let big = std::env::var("BIG").is_ok();
    let m = if big { 1 + r.below(4_000_000_000) as u128 } else { 1 + r.below(40) as u128 };
    let sc = if prec == 0 { 0 } else { r.below(prec as u64 + 1) as u32 };
    let d = 10u128.pow(sc);
    if sc == 0 {
        format!("{}", m)
    } else {
        format!("{}.{:0width$}", m / d, m % d, width = sc as usize)
    }
}

#[derive(Debug, Clone)]
pub struct Step {
    pub sender: String,
    pub funds: Vec<Coin>,
    pub msg: ExecuteMsg,
}

pub struct Viol {
    pub prop: &'static str,
    pub what: String,
}

fn restricted(w: &World, d: &str) -> bool {
    w.chain.markers.get(d).copied() == Some(MarkerKind::Restricted)
}

pub fn gen_step(r: &mut Rng, w: &World, c: &Cfg, idn: &mut u64) -> Step {
    let asks = w.scan("ask");
    let bids = w.scan("bid");
    let exec = r.pick(&c.executors).clone();
    let kind = r.below(100);
    let funds_for = |w: &World, denom: &str, amt: u128| -> Vec<Coin> {
        if restricted(w, denom) { vec![] } else { vec![coin(amt, denom)] }
    };
    if kind < 18 || (asks.is_empty() && kind < 40) {
        // create ask
        *idn += 1;
        let base = if !c.convs.is_empty() && r.chance(50) { r.pick(&c.convs).clone() } else { "base".to_string() };
        let size = c.inc * (1 + r.below(5) as u128);
        let sender = r.pick(POOL).to_string();
        return Step {
            funds: funds_for(w, &base, size),
            sender,
            msg: ExecuteMsg::CreateAsk { id: uuid(*idn), base, quote: r.pick(&c.quotes).clone(), price: gen_price(r, c.prec), size: Uint128::new(size) },
        };
    }
    if kind < 36 || (bids.is_empty() && kind < 60) {
        *idn += 1;
        let size = c.inc * (1 + r.below(5) as u128);
        let price = gen_price(r, c.prec);
        let total = parse_dec(&price).unwrap().mul_int(size).unwrap();
        let quote = r.pick(&c.quotes).clone();
        let info = w.item("contract_info").unwrap();
        let fee = match info["bid_fee_info"].as_object() {
            Some(o) => fee_of(&parse_dec(o["rate"].as_str().unwrap()).unwrap(), total),
            None => 0,
        };
        let feec = if fee > 0 || r.chance(20) { Some(coin(fee, &quote)) } else { None };
        let sender = r.pick(POOL).to_string();
        return Step {
            funds: funds_for(w, &quote, total + fee),
            sender,
            msg: ExecuteMsg::CreateBid { id: uuid(*idn), base: "base".into(), fee: feec, price, quote, quote_size: Uint128::new(total), size: Uint128::new(size) },
        };
    }
    if kind < 46 {
        // approve a pending ask
        let pend: Vec<_> = asks.iter().filter(|a| a.1["class"].get("Convertible").map_or(false, |c| c["status"].is_string())).collect();
        if let Some(a) = pend.first() {
            let size = u(&a.1["size"]);
            return Step { sender: r.pick(&c.approvers).clone(), funds: funds_for(w, "base", size), msg: ExecuteMsg::ApproveAsk { id: a.0.clone(), base: "base".into(), size: Uint128::new(size) } };
        }
    }
    if kind < 75 && !asks.is_empty() && !bids.is_empty() {
        // match: try to find crossing pair
        let a = r.pick(&asks);
        let b = r.pick(&bids);
        let ap = a.1["price"].as_str().unwrap().to_string();
        let bp = b.1["price"].as_str().unwrap().to_string();
        let price = if r.chance(50) { ap } else { bp };
        let arem = u(&a.1["size"]);
        let brem = u(&b.1["base"]["amount"]) - u(&b.1["accumulated_base"]);
        let m = arem.min(brem);
        let size = match r.below(4) {
            0 => m,
            1 => 1 + r.below(m as u64) as u128,
            2 => (c.inc * (1 + r.below(3) as u128)).min(m),
            _ => m + r.below(2) as u128,
        };
        let price = match r.below(6) {
            0 => if price.contains('.') { format!("{}0", price) } else { format!("{}.0", price) },
            1 => format!("0{}", price),
            _ => price,
        };
        let sender = if r.chance(8) { r.pick(POOL).to_string() } else { exec };
        let funds = if r.chance(4) { vec![coin(1, "base")] } else { vec![] };
        return Step { sender, funds, msg: ExecuteMsg::ExecuteMatch { ask_id: a.0.clone(), bid_id: b.0.clone(), price, size: Uint128::new(size) } };
    }
    if kind < 83 && !asks.is_empty() {
        let a = r.pick(&asks);
        let rem = u(&a.1["size"]);
        let size = if r.chance(30) { None } else { Some(Uint128::new(c.inc * (1 + r.below(3) as u128).min((rem / c.inc).max(1)))) };
        return Step { sender: exec, funds: vec![], msg: ExecuteMsg::RejectAsk { id: a.0.clone(), size } };
    }
    if kind < 91 && !bids.is_empty() {
        let b = r.pick(&bids);
        let rem = u(&b.1["base"]["amount"]) - u(&b.1["accumulated_base"]);
        let size = if r.chance(30) { None } else { Some(Uint128::new(c.inc * (1 + r.below(3) as u128).min((rem / c.inc).max(1)))) };
        return Step { sender: exec, funds: vec![], msg: ExecuteMsg::RejectBid { id: b.0.clone(), size } };
    }
    if kind < 94 && !asks.is_empty() {
        let a = r.pick(&asks);
        if r.chance(50) {
            return Step { sender: a.1["owner"].as_str().unwrap().into(), funds: vec![], msg: ExecuteMsg::CancelAsk { id: a.0.clone() } };
        }
        return Step { sender: exec, funds: vec![], msg: ExecuteMsg::ExpireAsk { id: a.0.clone() } };
    }
    if kind < 97 && !bids.is_empty() {
        let b = r.pick(&bids);
        if r.chance(50) {
            return Step { sender: b.1["owner"].as_str().unwrap().into(), funds: vec![], msg: ExecuteMsg::CancelBid { id: b.0.clone() } };
        }
        return Step { sender: exec, funds: vec![], msg: ExecuteMsg::ExpireBid { id: b.0.clone() } };
    }
    // modify: change fee accounts
    let info = w.item("contract_info").unwrap();
    let (afr, afa) = match info["ask_fee_info"].as_object() {
        Some(o) => (Some(o["rate"].as_str().unwrap().to_string()), Some(r.pick(POOL).to_string())),
        None => (None, None),
    };
    Step { sender: exec, funds: vec![], msg: ExecuteMsg::ModifyContract { approvers: None, executors: None, ask_fee_rate: afr, ask_fee_account: afa, bid_fee_rate: None, bid_fee_account: None, ask_required_attributes: None, bid_required_attributes: None } }
}

pub fn check_state(w: &World, out: &mut Vec<Viol>) {
    // obligations
    let mut owed: BTreeMap<String, i128> = BTreeMap::new();
    for (_, a) in w.scan("ask") {
        *owed.entry(a["base"].as_str().unwrap().into()).or_insert(0) += u(&a["size"]) as i128;
        if let Some(cv) = a["class"].get("Convertible") {
            if let Some(rdy) = cv["status"].get("Ready") {
                let cb = &rdy["converted_base"];
                *owed.entry(cb["denom"].as_str().unwrap().into()).or_insert(0) += u(&cb["amount"]) as i128;
                if u(&cb["amount"]) != u(&a["size"]) {
                    out.push(Viol { prop: "C08", what: format!("converted_base {} != size {}", cb["amount"], a["size"]) });
                }
            }
        }
        if u(&a["size"]) == 0 {
            out.push(Viol { prop: "C11", what: "zero-size ask on book".into() });
        }
    }
    for (_, b) in w.scan("bid") {
        let q = u(&b["quote"]["amount"]);
        let rq = q - u(&b["accumulated_quote"]);
        let rb = u(&b["base"]["amount"]) - u(&b["accumulated_base"]);
        let qd: String = b["quote"]["denom"].as_str().unwrap().into();
        let mut held = rq as i128;
        if let Some(f) = b["fee"].as_object() {
            let fa = u(&f["amount"]);
            let rf = fa - u(&b["accumulated_fee"]);
            held += rf as i128;
            let (v, tie) = prorata(fa, rq, q);
            if !(rf == v || (tie && rf + 1 == v)) {
                out.push(Viol { prop: "C09", what: format!("held fee {} expected {} (tie {}) F={} r={} Q={}", rf, v, tie, fa, rq, q) });
            }
        }
        *owed.entry(qd).or_insert(0) += held;
        let p = parse_dec(b["price"].as_str().unwrap()).unwrap();
        if p.mul_int(rb) != Some(rq) {
            out.push(Viol { prop: "C11", what: format!("remaining quote {} != price {} * rem base {}", rq, b["price"], rb) });
        }
        if rb == 0 {
            out.push(Viol { prop: "C11", what: "zero-size bid on book".into() });
        }
    }
    let mut denoms: Vec<String> = owed.keys().cloned().collect();
    for ((a, d), _) in w.ledger.iter() {
        if a == CONTRACT && !denoms.contains(d) {
            denoms.push(d.clone());
        }
    }
    for d in denoms {
        let have = w.bal(CONTRACT, &d);
        let owe = *owed.get(&d).unwrap_or(&0);
        if have != owe {
            out.push(Viol { prop: "C01", what: format!("denom {} held {} owed {}", d, have, owe) });
        }
    }
}

pub fn check_xfers(w: &World, sender: &str, xs: &[Xfer], out: &mut Vec<Viol>) {
    for x in xs {
        match x {
            Xfer::Bank { denom, amount, .. } => {
                if restricted(w, denom) {
                    out.push(Viol { prop: "C10", what: format!("bank send of restricted {}", denom) });
                }
                if *amount == 0 {
                    out.push(Viol { prop: "C10", what: "zero bank send".into() });
                }
            }
            Xfer::Marker { admin, from, denom, amount, .. } => {
                if !restricted(w, denom) {
                    out.push(Viol { prop: "C10", what: format!("marker transfer of unrestricted {}", denom) });
                }
                if admin != CONTRACT || !(from == CONTRACT || from == sender) || amount.parse::<u128>().map_or(true, |a| a == 0) {
                    out.push(Viol { prop: "C10", what: format!("bad marker transfer {:?}", x) });
                }
            }
            Xfer::Other(s) => out.push(Viol { prop: "C10", what: format!("other msg {}", s) }),
        }
    }
}

pub fn exit_probes(w: &World, c: &Cfg, out: &mut Vec<Viol>) -> u64 {
    let mut n = 0;
    for (id, a) in w.scan("ask") {
        for mode in 0..2 {
            let mut w2 = w.clone();
            let owner = a["owner"].as_str().unwrap();
            let o = if mode == 0 { w2.execute(owner, &[], ExecuteMsg::CancelAsk { id: id.clone() }) } else { w2.execute(&c_exec(&w2, c), &[], ExecuteMsg::ExpireAsk { id: id.clone() }) };
            n += 1;
            if !o.is_ok() {
                out.push(Viol { prop: "C06", what: format!("ask exit mode {} refused: {:?} ask={}", mode, o, a) });
                continue;
            }
            let size = u(&a["size"]) as i128;
            let got = w2.bal(owner, a["base"].as_str().unwrap()) - w.bal(owner, a["base"].as_str().unwrap());
            let same_acct_approver = a["class"].get("Convertible").and_then(|c| c["status"].get("Ready")).map(|r| r["approver"].as_str().unwrap() == owner).unwrap_or(false);
            let _ = same_acct_approver;
            if got != size {
                out.push(Viol { prop: "C06", what: format!("ask exit returned {} of {}", got, size) });
            }
            if w2.scan("ask").iter().any(|x| x.0 == id) {
                out.push(Viol { prop: "C06", what: "ask still there".into() });
            }
        }
    }
    for (id, b) in w.scan("bid") {
        for mode in 0..2 {
            let mut w2 = w.clone();
            let owner = b["owner"].as_str().unwrap();
            let o = if mode == 0 { w2.execute(owner, &[], ExecuteMsg::CancelBid { id: id.clone() }) } else { w2.execute(&c_exec(&w2, c), &[], ExecuteMsg::ExpireBid { id: id.clone() }) };
            n += 1;
            if !o.is_ok() {
                out.push(Viol { prop: "C06", what: format!("bid exit mode {} refused: {:?} bid={}", mode, o, b) });
                continue;
            }
            let qd = b["quote"]["denom"].as_str().unwrap();
            let rq = u(&b["quote"]["amount"]) - u(&b["accumulated_quote"]);
            let rf = b["fee"].as_object().map_or(0, |f| u(&f["amount"]) - u(&b["accumulated_fee"]));
            let got = w2.bal(owner, qd) - w.bal(owner, qd);
            if got != (rq + rf) as i128 {
                out.push(Viol { prop: "C06", what: format!("bid exit returned {} of {}", got, rq + rf) });
            }
            if w2.scan("bid").iter().any(|x| x.0 == id) {
                out.push(Viol { prop: "C06", what: "bid still there".into() });
            }
        }
    }
    n
}
fn c_exec(w: &World, _c: &Cfg) -> String {
    w.item("contract_info").unwrap()["executors"][0].as_str().unwrap().to_string()
}

pub fn run(seed: u64, histories: u64, steps: u64) {
    let mut r = Rng(seed);
    let mut stats: BTreeMap<String, u64> = BTreeMap::new();
    let mut viols: BTreeMap<String, (u64, String)> = BTreeMap::new();
    let mut probes = 0;
    for h in 0..histories {
        let (c, chain) = gen_cfg(&mut r);
        let mut w = World::new(chain);
        let o = w.instantiate(inst_msg(&c));
        if !o.is_ok() {
            *stats.entry("inst_fail".into()).or_insert(0) += 1;
            continue;
        }
        let mut idn = h * 1000;
        let mut trace: Vec<String> = vec![];
        let mut shadow = crate::model::Shadow::default();
        for _ in 0..steps {
            let mut st = gen_step(&mut r, &w, &c, &mut idn);
            mutate_create(&mut r, &w, &mut st);
            let name = format!("{:?}", st.msg).split(|c: char| !c.is_alphanumeric()).next().unwrap().to_string();
            let before = w.clone();
            let o = w.execute(&st.sender, &st.funds, st.msg.clone());
            trace.push(format!("{} {:?} {:?} => {:?}", st.sender, st.funds, st.msg, o));
            let tag = match &o { Outcome::Ok { .. } => "ok", Outcome::Err(_) => "err", Outcome::Panic(_) => "panic" };
            *stats.entry(format!("{}:{}", name, tag)).or_insert(0) += 1;
            if let Outcome::Err(e) = &o {
                let e = e.split(|c: char| !c.is_alphanumeric()).next().unwrap().to_string();
                *stats.entry(format!("  {}:err:{}", name, e)).or_insert(0) += 1;
            }
            let mut out = vec![];
            if let ExecuteMsg::ExecuteMatch { ask_id, bid_id, price, size } = &st.msg {
                let exp = match_oracle(&before, &st.sender, &st.funds, ask_id, bid_id, price, size.u128());
                match (&exp, o.is_ok()) {
                    (Ok(()), false) => out.push(Viol { prop: "C03", what: format!("legal match refused: {:?}", o) }),
                    (Err(e), true) => out.push(Viol { prop: "C03", what: format!("illegal match accepted: {}", e) }),
                    _ => {}
                }
                *stats.entry(format!("  oracle:{}", match &exp { Ok(()) => "accept".to_string(), Err(e) => e.clone() })).or_insert(0) += 1;
            }
            if matches!(st.msg, ExecuteMsg::CreateAsk { .. } | ExecuteMsg::CreateBid { .. }) {
                let exp = create_oracle(&before, &st);
                match (&exp, o.is_ok()) {
                    (Ok(()), false) => out.push(Viol { prop: "C07", what: format!("valid create refused: {:?}", o) }),
                    (Err(e), true) => out.push(Viol { prop: "C07", what: format!("invalid create accepted: {}", e) }),
                    _ => {}
                }
                *stats.entry(format!("  create-oracle:{}", match &exp { Ok(()) => "accept".to_string(), Err(e) => e.clone() })).or_insert(0) += 1;
            }
            if let Outcome::Ok { xfers, attrs } = &o {
                crate::model::check_step(&before, &w, &st, attrs, &mut out, &mut stats);
                if let Err(e) = shadow.apply(attrs) { out.push(Viol { prop: "C17", what: format!("shadow apply: {}", e) }); }
                else if shadow != crate::model::Shadow::of_world(&w) { out.push(Viol { prop: "C17", what: format!("shadow book diverged: {:?} vs {:?}", shadow, crate::model::Shadow::of_world(&w)) }); }
                check_xfers(&before, &st.sender, xfers, &mut out);
                check_state(&w, &mut out);
                probes += exit_probes(&w, &c, &mut out);
            }
            if !out.is_empty() {
                for v in out {
                    let key = format!("{} {}", v.prop, v.what.split_whitespace().take(3).collect::<Vec<_>>().join(" "));
                    let e = viols.entry(key).or_insert((0, String::new()));
                    e.0 += 1;
                    if e.1.is_empty() {
                        e.1 = format!("{}\n   cfg prec={} inc={} markers={:?} askfee={:?} bidfee={:?}\n   {}", v.what, c.prec, c.inc, w.chain.markers, c.ask_fee, c.bid_fee, trace.join("\n   "));
                    }
                }
                break; // end history on violation
            }
        }
    }
    println!("stats:");
    for (k, v) in &stats {
        println!("  {:40} {}", k, v);
    }
    println!("exit probes: {}", probes);
    println!("violation classes: {}", viols.len());
    for (k, (n, ex)) in &viols {
        println!("--- [{}x] {}\n   {}", n, k, ex);
    }
}


pub fn canon_uuid(s: &str) -> bool {
    let b = s.as_bytes();
    if b.len() != 36 { return false; }
    for (i, c) in b.iter().enumerate() {
        if i == 8 || i == 13 || i == 18 || i == 23 {
            if *c != b'-' { return false; }
        } else if !(c.is_ascii_digit() || (b'a'..=b'f').contains(c)) {
            return false;
        }
    }
    true
}

/// expected accept/refuse for ExecuteMatch; Err(reason) = must be refused
pub fn match_oracle(w: &World, sender: &str, funds: &[Coin], ask_id: &str, bid_id: &str, price: &str, size: u128) -> Result<(), String> {
    if !canon_uuid(ask_id) || !canon_uuid(bid_id) { return Err("id form".into()); }
    if price.is_empty() || size < 1 { return Err("msg".into()); }
    let info = w.item("contract_info").unwrap();
    if !info["executors"].as_array().unwrap().iter().any(|e| e.as_str() == Some(sender)) { return Err("not executor".into()); }
    if !funds.is_empty() { return Err("funds".into()); }
    let asks = w.scan("ask"); let bids = w.scan("bid");
    let a = asks.iter().find(|x| x.0 == ask_id).ok_or("no ask")?;
    let b = bids.iter().find(|x| x.0 == bid_id).ok_or("no bid")?;
    if a.1["quote"] != b.1["quote"]["denom"] { return Err("quote mismatch".into()); }
    let ap = parse_dec(a.1["price"].as_str().unwrap()).unwrap();
    let bp = parse_dec(b.1["price"].as_str().unwrap()).unwrap();
    let ep = parse_dec(price).ok_or("price parse")?;
    use std::cmp::Ordering::*;
    if ap.cmp(&bp) == Greater { return Err("ask>bid".into()); }
    if ep.cmp(&ap) != Equal && ep.cmp(&bp) != Equal { return Err("exec price".into()); }
    let arem = u(&a.1["size"]);
    let brem = u(&b.1["base"]["amount"]) - u(&b.1["accumulated_base"]);
    if size > arem || size > brem { return Err("size".into()); }
    let gross = ep.mul_int(size).ok_or("nonint gross")?;
    if ep.cmp(&bp) == Less { bp.mul_int(size).ok_or("nonint orig")?; }
    if a.1["class"].get("Convertible").map_or(false, |c| c["status"].is_string()) { return Err("pending".into()); }
    // fees payable
    if let Some(o) = info["ask_fee_info"].as_object() {
        let rate = parse_dec(o["rate"].as_str().unwrap()).ok_or("rate")?;
        if fee_of(&rate, gross) > gross { return Err("ask fee > gross".into()); }
    }
    if let Some(f) = b.1["fee"].as_object() {
        let fa = u(&f["amount"]);
        let q = u(&b.1["quote"]["amount"]);
        let rq = q - u(&b.1["accumulated_quote"]);
        let rf = fa - u(&b.1["accumulated_fee"]);
        let (v, _) = prorata(fa, rq - gross, q);
        if rf > v && info["bid_fee_info"].is_null() { return Err("bid fee account missing".into()); }
    }
    Ok(())
}


fn dec_digits_ok(s: &str) -> bool { parse_dec(s).is_some() }

/// admission oracle; Err(reason) => must be refused
pub fn create_oracle(w: &World, st: &Step) -> Result<(), String> {
    let info = w.item("contract_info").unwrap();
    let prec = u(&info["price_precision"]) as u32;
    let inc = u(&info["size_increment"]);
    let base_denom = info["base_denom"].as_str().unwrap();
    let has = |arr: &Value, x: &str| arr.as_array().unwrap().iter().any(|e| e.as_str() == Some(x));
    let price_ok = |p: &str| -> Result<Dec, String> {
        if !dec_digits_ok(p) { return Err("price parse".into()); }
        let d = parse_dec(p).unwrap();
        if d.mant == 0 { return Err("price zero".into()); }
        // within precision: mant * 10^prec divisible by 10^scale
        if d.scale > prec {
            let extra = 10u128.pow(d.scale - prec);
            if d.mant % extra != 0 { return Err("price precision".into()); }
        }
        Ok(d)
    };
    let attrs_ok = |req: &Value| -> bool {
        let have = w.chain.attrs.get(&st.sender).cloned().unwrap_or_default();
        req.as_array().unwrap().iter().all(|a| have.iter().any(|h| Some(h.as_str()) == a.as_str()))
    };
    match &st.msg {
        ExecuteMsg::CreateAsk { id, base, quote, price, size } => {
            if !canon_uuid(id) { return Err("id".into()); }
            if base.is_empty() || quote.is_empty() || price.is_empty() || size.u128() < 1 { return Err("msg".into()); }
            if base != base_denom && !has(&info["convertible_base_denoms"], base) { return Err("base denom".into()); }
            if restricted(w, base) { if !st.funds.is_empty() { return Err("funds restricted".into()); } }
            else if st.funds != vec![coin(size.u128(), base.clone())] { return Err("funds".into()); }
            if !has(&info["supported_quote_denoms"], quote) { return Err("quote denom".into()); }
            if size.u128() % inc != 0 { return Err("lot".into()); }
            price_ok(price)?;
            if !attrs_ok(&info["ask_required_attributes"]) { return Err("attrs".into()); }
            if w.scan("ask").iter().any(|x| &x.0 == id) { return Err("dup".into()); }
            Ok(())
        }
        ExecuteMsg::CreateBid { id, base, fee, price, quote, quote_size, size } => {
            if !canon_uuid(id) { return Err("id".into()); }
            if base.is_empty() || quote.is_empty() || price.is_empty() || size.u128() < 1 || quote_size.u128() < 1 { return Err("msg".into()); }
            let p = price_ok(price)?;
            if size.u128() % inc != 0 { return Err("lot".into()); }
            let total = p.mul_int(size.u128()).ok_or("nonint")?;
            if total != quote_size.u128() { return Err("quote_size".into()); }
            let calc = match info["bid_fee_info"].as_object() { Some(o) => fee_of(&parse_dec(o["rate"].as_str().unwrap()).ok_or("rate")?, total), None => 0 };
            match fee { Some(f) => { if f.amount.u128() != calc { return Err("fee amt".into()); } if &f.denom != quote { return Err("fee denom".into()); } } None => if calc != 0 { return Err("fee missing".into()); } }
            if !has(&info["supported_quote_denoms"], quote) { return Err("quote denom".into()); }
            if base != base_denom { return Err("base denom".into()); }
            if !attrs_ok(&info["bid_required_attributes"]) { return Err("attrs".into()); }
            let need = total + fee.as_ref().map_or(0, |f| f.amount.u128());
            if restricted(w, quote) { if !st.funds.is_empty() { return Err("funds restricted".into()); } }
            else if st.funds != vec![coin(need, quote.clone())] { return Err("funds".into()); }
            if w.scan("bid").iter().any(|x| &x.0 == id) { return Err("dup".into()); }
            Ok(())
        }
        _ => Ok(()),
    }
}

pub fn mutate_create(r: &mut Rng, w: &World, st: &mut Step) {
    if !r.chance(45) { return; }
    let info = w.item("contract_info").unwrap();
    let prec = u(&info["price_precision"]) as usize;
    let badprice = |r: &mut Rng, p: &str| -> String {
        match r.below(7) {
            0 => "0".into(), 1 => "0.0".into(), 2 => "abc".into(), 3 => "".into(),
            4 => if p.contains('.') { format!("{}{}1", p, "0".repeat(prec)) } else { format!("{}.{}1", p, "0".repeat(prec)) },
            5 => "1e3".into(),
            _ => format!("{}.{}1", p.split('.').next().unwrap(), "0".repeat(29)),
        }
    };
    let which = r.below(12);
    let existing: Vec<String> = w.scan("ask").into_iter().chain(w.scan("bid")).map(|x| x.0).collect();
    match &mut st.msg {
        ExecuteMsg::CreateAsk { id, base, quote, price, size } => match which {
            0 => { if let Some(c) = st.funds.first_mut() { c.amount += Uint128::new(1); } else { st.funds.push(coin(1, base.clone())); } }
            1 => { if let Some(c) = st.funds.first_mut() { c.amount -= Uint128::new(1); } }
            2 => { st.funds.push(coin(1, "q0")); }
            3 => { st.funds.clear(); }
            4 => { *price = badprice(r, price); }
            5 => { *size += Uint128::new(1); for c in st.funds.iter_mut() { c.amount += Uint128::new(1); } }
            6 => { *base = "nope".into(); for c in st.funds.iter_mut() { c.denom = "nope".into(); } }
            7 => { *quote = "nope".into(); }
            8 => { *id = match r.below(3) { 0 => id.to_uppercase(), 1 => id.replace('-', ""), _ => "zz".into() }; }
            9 => { if !existing.is_empty() { *id = r.pick(&existing).clone(); } }
            10 => { if let Some(c) = st.funds.first_mut() { c.denom = "q0".into(); } }
            _ => { st.sender = "noattr".into(); }
        },
        ExecuteMsg::CreateBid { id, base, fee, price, quote, quote_size, size } => match which {
            0 => { if let Some(c) = st.funds.first_mut() { c.amount += Uint128::new(1); } else { st.funds.push(coin(1, quote.clone())); } }
            1 => { if let Some(c) = st.funds.first_mut() { c.amount -= Uint128::new(1); } }
            2 => { st.funds.push(coin(1, "base")); }
            3 => { *price = badprice(r, price); }
            4 => { *size += Uint128::new(1); }
            5 => { *quote_size += Uint128::new(1); for c in st.funds.iter_mut() { c.amount += Uint128::new(1); } }
            6 => { match fee { Some(f) => { if r.chance(50) { f.amount += Uint128::new(1); for c in st.funds.iter_mut() { c.amount += Uint128::new(1); } } else { f.denom = "base".into(); } } None => { *fee = Some(coin(1, quote.clone())); for c in st.funds.iter_mut() { c.amount += Uint128::new(1); } } } }
            7 => { if let Some(f) = fee.take() { for c in st.funds.iter_mut() { c.amount -= f.amount; } } }
            8 => { *id = match r.below(3) { 0 => id.to_uppercase(), 1 => id.replace('-', ""), _ => "zz".into() }; }
            9 => { if !existing.is_empty() { *id = r.pick(&existing).clone(); } }
            10 => { *base = if r.chance(50) { "conv0".into() } else { "nope".into() }; }
            _ => { *quote = "nope".into(); for c in st.funds.iter_mut() { c.denom = "nope".into(); } if let Some(f) = fee { f.denom = "nope".into(); } }
        },
        _ => {}
    }
}


/// migration round-trip probe: real history -> synthesize V2 bids from observed deltas -> migrate -> compare
pub fn run_mig(seed: u64, histories: u64, steps: u64) {
    use serde_json::json;
    let mut r = Rng(seed);
    let mut n_bids = 0u64; let mut n_events = 0u64; let mut bad = 0u64; let mut migs = 0u64; let mut refused_old = 0u64;
    for h in 0..histories {
        let (c, chain) = gen_cfg(&mut r);
        let mut w = World::new(chain);
        if !w.instantiate(inst_msg(&c)).is_ok() { continue; }
        let mut idn = h * 1000;
        let mut events: BTreeMap<String, Vec<Value>> = BTreeMap::new();
        for _ in 0..steps {
            let st = gen_step(&mut r, &w, &c, &mut idn);
            let before = w.clone();
            let o = w.execute(&st.sender, &st.funds, st.msg.clone());
            if let Outcome::Ok { attrs, .. } = &o {
                let get = |k: &str| attrs.iter().find(|a| a.0 == k).map(|a| a.1.clone());
                let bid_id = match &st.msg { ExecuteMsg::ExecuteMatch { bid_id, .. } => Some(bid_id.clone()), ExecuteMsg::RejectBid { id, .. } | ExecuteMsg::ExpireBid { id } | ExecuteMsg::CancelBid { id } => Some(id.clone()), _ => None };
                if let Some(bid_id) = bid_id {
                    let pre = before.scan("bid").into_iter().find(|x| x.0 == bid_id).unwrap().1;
                    let post = w.scan("bid").into_iter().find(|x| x.0 == bid_id).map(|x| x.1);
                    if let Some(post) = post {
                        let d = |k: &str| u(&post[k]) - u(&pre[k]);
                        let qd = pre["quote"]["denom"].clone(); let bd = pre["base"]["denom"].clone();
                        let coinj = |a: u128, d: &Value| json!({"amount": a.to_string(), "denom": d});
                        let feej = |a: u128| if a > 0 { coinj(a, &qd) } else { Value::Null };
                        let blk = json!({"height": 12345, "time": "1571797419879305533"});
                        if let ExecuteMsg::ExecuteMatch { price, size, .. } = &st.msg {
                            let gross = parse_dec(price).unwrap().mul_int(size.u128()).unwrap();
                            let bid_fee: u128 = get("bid_fee").unwrap().parse().unwrap();
                            events.entry(bid_id.clone()).or_default().push(json!({"action": {"Fill": {"base": coinj(size.u128(), &bd), "fee": feej(bid_fee), "price": price, "quote": coinj(gross, &qd)}}, "block_info": blk}));
                            let rq = d("accumulated_quote") - gross; let rf = d("accumulated_fee") - bid_fee;
                            if rq > 0 || rf > 0 {
                                events.entry(bid_id.clone()).or_default().push(json!({"action": {"Refund": {"fee": feej(rf), "quote": coinj(rq, &qd)}}, "block_info": blk}));
                            }
                        } else {
                            events.entry(bid_id.clone()).or_default().push(json!({"action": {"Reject": {"base": coinj(d("accumulated_base"), &bd), "fee": feej(d("accumulated_fee")), "quote": coinj(d("accumulated_quote"), &qd)}}, "block_info": blk}));
                        }
                    }
                }
            }
        }
        // synthesize legacy state
        let mut legacy = w.clone();
        let bids = w.scan("bid");
        for (id, b) in &bids {
            if r.chance(25) { continue; } // leave some in V3 format
            let ev = events.get(id).cloned().unwrap_or_default();
            n_events += ev.len() as u64; n_bids += 1;
            let v2 = json!({"base": b["base"], "events": ev, "fee": b["fee"], "id": b["id"], "owner": b["owner"], "price": b["price"], "quote": b["quote"]});
            let mut key = vec![0u8, 3]; key.extend_from_slice(b"bid"); key.extend_from_slice(id.as_bytes());
            legacy.store.data.insert(key, serde_json::to_vec(&v2).unwrap());
        }
        let ver = *r.pick(&["0.16.2", "0.17.0", "0.18.2", "0.19.0", "0.16.1", "0.15.9"]);
        legacy.store.data.insert(b"version_info".to_vec(), serde_json::to_vec(&json!({"definition": "ats-smart-contract", "version": ver})).unwrap());
        let pre = legacy.clone();
        let o = legacy.migrate(ats_smart_contract::msg::MigrateMsg { approvers: None, ask_fee_rate: None, ask_fee_account: None, bid_fee_rate: None, bid_fee_account: None, ask_required_attributes: None, bid_required_attributes: None });
        let old = ver == "0.16.1" || ver == "0.15.9";
        if old {
            if o.is_ok() { bad += 1; println!("old version accepted {}", ver); } else { refused_old += 1; }
            if legacy.store != pre.store { bad += 1; }
            continue;
        }
        if !o.is_ok() { bad += 1; println!("migrate refused: {:?}", o); continue; }
        migs += 1;
        // compare with original world (json-level)
        let a: Vec<_> = legacy.store.data.iter().map(|(k, v)| (k.clone(), serde_json::from_slice::<Value>(v).unwrap())).collect();
        let b: Vec<_> = w.store.data.iter().map(|(k, v)| (k.clone(), serde_json::from_slice::<Value>(v).unwrap())).collect();
        if a != b {
            bad += 1;
            for (x, y) in a.iter().zip(b.iter()) { if x != y { println!("DIFF\n  migrated {} {}\n  original {} {}", String::from_utf8_lossy(&x.0), x.1, String::from_utf8_lossy(&y.0), y.1); break; } }
        }
        if legacy.store != w.store { println!("byte-level differs (json equal: {})", a == b); }
    }
    println!("migrations {} old-refused {} v2 bids {} events {} bad {}", migs, refused_old, n_bids, n_events, bad);
}
