use rust_decimal::Decimal;
use std::str::FromStr;
fn main(){
    for s in ["1.", ".5", "+1", "1e2", " 1", "1 ", "1_0", "-0", "0.0", "00", "1.2.3", "", "-0.1", "0.10", "010", "1.0000000000000000000000000001","79228162514264337593543950335","79228162514264337593543950336","0.00000000000000000000000000001","1,5","１"] {
        println!("{:?} -> {:?}", s, Decimal::from_str(s).map(|d| (d.to_string(), d.scale())));
    }
    for s in ["ab5f5a62-f6fc-46d1-aa84-51ccc51ec367","AB5F5A62-F6FC-46D1-AA84-51CCC51EC367","ab5f5a62f6fc46d1aa8451ccc51ec367","{ab5f5a62-f6fc-46d1-aa84-51ccc51ec367}","urn:uuid:ab5f5a62-f6fc-46d1-aa84-51ccc51ec367","ab5f5a62-f6fc-46d1-aa84-51ccc51ec36","ab5f5a62-f6fc-46d1-aa84-51ccc51ec367 ", "ab5f5a62f6fc-46d1-aa84-51ccc51ec367"] {
        println!("{:?} -> {:?}", s, uuid::Uuid::parse_str(s).map(|u| u.hyphenated().to_string()));
    }
    for v in ["0.16.2","0.16.1","1.0.0","0.19.1-rc1","0.19.0+b","1.0","v1.0.0","01.0.0","1.0.0-alpha","0.16.2-rc1", "2.0.0"] {
        let p = semver::Version::parse(v);
        println!("{:?} -> {:?} matches>=0.16.2:{:?} in-window:{:?}", v, p.is_ok(), p.as_ref().ok().map(|x| semver::VersionReq::parse(">=0.16.2").unwrap().matches(x)), p.as_ref().ok().map(|x| semver::VersionReq::parse(">=0.16.2, <0.19.1").unwrap().matches(x)));
    }
}
