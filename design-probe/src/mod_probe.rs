#[path = "../src/sim.rs"]
mod sim;
use ats_smart_contract::msg::{ExecuteMsg, InstantiateMsg};
use cosmwasm_std::{coins, Uint128};
use sim::*;
fn main() {
    std::panic::set_hook(Box::new(|_| {}));
    let mut w = World::new(ChainQ::default());
    w.instantiate(InstantiateMsg { name: "ats".into(), base_denom: "base".into(), convertible_base_denoms: vec![], supported_quote_denoms: vec!["quote".into()], approvers: vec![], executors: vec!["exec".into()], ask_fee_rate: Some("0.01".into()), ask_fee_account: Some("feeacct".into()), bid_fee_rate: None, bid_fee_account: None, ask_required_attributes: vec![], bid_required_attributes: vec![], price_precision: Uint128::new(0), size_increment: Uint128::new(1) });
    let o = w.execute("seller", &coins(10, "base"), ExecuteMsg::CreateAsk { id: "ab5f5a62-f6fc-46d1-aa84-51ccc51ec367".into(), base: "base".into(), quote: "quote".into(), price: "2".into(), size: Uint128::new(10) });
    println!("{}", o.is_ok());
    let m = |r: &str, a: &str| ExecuteMsg::ModifyContract { approvers: None, executors: None, ask_fee_rate: Some(r.into()), ask_fee_account: Some(a.into()), bid_fee_rate: None, bid_fee_account: None, ask_required_attributes: None, bid_required_attributes: None };
    println!("clear with asks open: {:?}", w.execute("exec", &[], m("", "")));
    println!("bad rate with asks open: {:?}", w.execute("exec", &[], m("abc", "feeacct")));
    println!("same rate diff string: {:?}", w.execute("exec", &[], m("0.010", "other")));
    println!("info: {}", w.item("contract_info").unwrap()["ask_fee_info"]);
    println!("diff rate: {:?}", w.execute("exec", &[], m("0.02", "other")));
    println!("approvers empty: {:?}", w.execute("exec", &[], ExecuteMsg::ModifyContract { approvers: Some(vec![]), executors: None, ask_fee_rate: None, ask_fee_account: None, bid_fee_rate: None, bid_fee_account: None, ask_required_attributes: None, bid_required_attributes: None }));
}
