#[path = "../src/sim.rs"]
mod sim;
use ats_smart_contract::msg::{ExecuteMsg, InstantiateMsg, QueryMsg};
use cosmwasm_std::{coin, coins, Uint128};
use sim::*;
fn inst(prec: u128, inc: u128) -> InstantiateMsg {
    InstantiateMsg { name: "ats".into(), base_denom: "base".into(), convertible_base_denoms: vec!["conv".into()], supported_quote_denoms: vec!["quote".into()], approvers: vec!["approver".into()], executors: vec!["exec".into()], ask_fee_rate: None, ask_fee_account: None, bid_fee_rate: None, bid_fee_account: None, ask_required_attributes: vec![], bid_required_attributes: vec![], price_precision: Uint128::new(prec), size_increment: Uint128::new(inc) }
}
fn main() {
    std::panic::set_hook(Box::new(|_| {}));
    let mut w = World::new(ChainQ::default());
    w.instantiate(inst(2, 100));
    for (i, p) in ["1.00000000000000000000000000001", "2.5000000000000000000000000000049", "1_0", "+1", ".5", "1.", "-0", "-1", "1.005"].iter().enumerate() {
        let id = format!("ab5f5a62-f6fc-46d1-aa84-51ccc51ec3{:02}", i);
        let o = w.execute("seller", &coins(100, "base"), ExecuteMsg::CreateAsk { id: id.clone(), base: "base".into(), quote: "quote".into(), price: p.to_string(), size: Uint128::new(100) });
        println!("ask price {:?} -> {}", p, match &o { Outcome::Ok{..} => "ACCEPTED".to_string(), x => format!("{:?}", x) });
    }
    // queries with legacy ids
    println!("{:?}", w.query(QueryMsg::GetAsk { id: "ab5f5a62f6fc46d1aa8451ccc51ec300".into() }));
    println!("{:?}", w.query(QueryMsg::GetAsk { id: "ab5f5a62-f6fc-46d1-aa84-51ccc51ec300".into() }).map(|b| String::from_utf8_lossy(b.as_slice()).to_string()));
    println!("{:?}", w.query(QueryMsg::GetAsk { id: "zz".into() }));
    // huge size
    let o = w.execute("buyer", &coins(u128::MAX, "quote"), ExecuteMsg::CreateBid { id: "ab5f5a62-f6fc-46d1-aa84-51ccc51ec399".into(), base: "base".into(), fee: None, price: "1".into(), quote: "quote".into(), quote_size: Uint128::new(u128::MAX - u128::MAX % 100), size: Uint128::new(u128::MAX - u128::MAX % 100) });
    println!("huge bid -> {:?}", o);
    let _ = coin(1, "x");
}
